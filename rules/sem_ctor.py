"""C16 by abstract evaluation (bounded): the ways of building an array agree, and dense conversion round-trips.

  R16.6  from_blocks (generic class with a symmetry argument, fixed-symmetry class without one, charge given / omitted when it is the
         identity), from_fill_fn and random build the array the direct constructor builds from the same description
  R16.7  to_dense followed by from_dense with the matching labels is the identity on blocks; from_dense of an opaque dense token with
         arbitrary (unsorted, interleaved) labels followed by to_dense is the projection onto the charge-conserving sectors, reordered
         by charge (each window = the gathered rows / columns of its sector)
"""

from __future__ import annotations

import itertools

from engine.absarray import Model, STok, all_sectors, audit_kinds
from engine.absops import NONTRIVIAL, PYERR, TABLES, Spec, World, specs
from engine.layout import LayoutError, placements, source
from engine.loader import AnalysisError
from engine.minieval import Obj, Raised, Unsupported
from rules.sem_adjoint import _labels
from rules.sem_layout import Witness, ixdesc

FIXED = {("Z2", False): "Z2Array", ("U1", False): "U1Array", ("Z2Z2", False): "Z2Z2Array", ("U1U1", False): "U1U1Array",
         ("Z2", True): "Z2FermionicArray", ("U1", True): "U1FermionicArray", ("Z2Z2", True): "Z2Z2FermionicArray",
         ("U1U1", True): "U1U1FermionicArray"}


def snapshot(w, ev, r):
    if "_phases" in r.fields:
        r = w.meth(ev, r, "phase_sync")
    return (tuple(ixdesc(i) for i in r.fields["_indices"]), repr(r.fields["_charge"]), r.fields["_symmetry"].cls.name,
            tuple(sorted((repr(k), repr(b.term), b.shape) for k, b in r.fields["_blocks"].items())), _labels(r))


def _ctor_job(state, sp):
    prog, tier = state
    w = World(prog)
    wit = Witness()
    model = Model(sp.sym)
    where = sp.describe()
    fm = sp.fermionic
    generic = prog.cls("FermionicArray" if fm else "AbelianArray")
    fixed = prog.cls(FIXED[(sp.sym, fm)]) if (sp.sym, fm) in FIXED else None
    ident = model.combine()
    try:
        ev = w.ev()
        x = sp.build(w)
        ref = snapshot(w, ev, w.meth(ev, sp.build(w), "sync_charges"))   # from_blocks only knows the charges that occur
        blocks = dict(x.fields["_blocks"])
        extra = {"oddpos": sp.label} if fm else {}
        if fm:
            extra["phases"] = dict(x.fields.get("_phases", {}))
        symobj = x.fields["_symmetry"]
        variants = [("generic class, symmetry object", generic, {"symmetry": symobj, "charge": sp.charge}),
                    ("generic class, symmetry name", generic, {"symmetry": sp.sym, "charge": sp.charge})]
        if fixed is not None:
            variants.append(("fixed-symmetry class", fixed, {"charge": sp.charge}))
        if sp.charge == ident:
            variants.append(("generic class, charge omitted", generic, {"symmetry": sp.sym}))
            if fixed is not None:
                variants.append(("fixed-symmetry class, charge omitted", fixed, {}))
        for label, cls, kw in variants:
            wit.tick("R16.6")
            m = prog.lookup_method(cls, "from_blocks")
            try:
                y = ev.call(m, [dict(blocks), sp.duals], dict(kw, **extra), self_obj=cls)
            except Raised as e:
                wit.bad(f"R16.6|from_blocks {label}: refused", f"{where}: from_blocks ({label}) raises {e.what[:100]}")
                continue
            got = snapshot(w, ev, y)
            if got != ref:
                what = [n for n, a, b in zip(("indices", "charge", "symmetry", "blocks", "labels"), got, ref) if a != b]
                wit.bad(f"R16.6|from_blocks {label}", f"{where}: from_blocks ({label}) differs from the direct constructor in {what}")
            if cls is not generic and y.cls is not cls:
                wit.bad(f"R16.6|from_blocks {label}: class", f"{where}: from_blocks on {cls.name} returns a {y.cls.name}")
        # from_fill_fn / random: every charge-conserving sector, shapes from the tables
        fill = lambda shape: STok(("fill", tuple(shape)), tuple(shape))  # noqa: E731
        want = {s: tuple(t[c] for t, c in zip(sp.tables, s)) for s in all_sectors(model, sp.duals, sp.charge, sp.tables)}
        indices = x.fields["_indices"]
        fextra = {"oddpos": sp.label} if fm else {}
        fvariants = [("from_fill_fn", "from_fill_fn", generic, [fill, indices], {"charge": sp.charge, "symmetry": sp.sym}),
                     ("from_fill_fn, symmetry object", "from_fill_fn", generic, [fill, indices], {"charge": sp.charge, "symmetry": symobj}),
                     ("random", "random", generic, [indices], {"charge": sp.charge, "symmetry": sp.sym})]
        if fixed is not None:
            fvariants.append(("from_fill_fn on the fixed-symmetry class", "from_fill_fn", fixed, [fill, indices], {"charge": sp.charge}))
            fvariants.append(("random on the fixed-symmetry class", "random", fixed, [indices], {"charge": sp.charge}))
        if sp.charge == ident:
            fvariants.append(("from_fill_fn, charge omitted", "from_fill_fn", generic, [fill, indices], {"symmetry": sp.sym}))
            fvariants.append(("random, charge omitted", "random", generic, [indices], {"symmetry": sp.sym}))
        for label, name, gcls, args, kw in fvariants:
            wit.tick("R16.6")
            ev2 = w.ev()
            ev2.stubs["get_random_fill_fn"] = lambda **k: fill
            m = prog.lookup_method(gcls, name)
            try:
                y = ev2.call(m, list(args), dict(kw, **fextra), self_obj=gcls)
            except Raised as e:
                wit.bad(f"R16.6|{label}: refused", f"{where}: {label} raises {e.what[:100]}")
                continue
            got = {s: b.shape for s, b in y.fields["_blocks"].items()}
            if got != want or y.fields["_charge"] != sp.charge:
                wit.bad(f"R16.6|{label}", f"{where}: {label} fills sectors {sorted(got)} (charge {y.fields['_charge']}), the charge-conserving "
                                          f"sectors are {sorted(want)}")
            for kind, text in audit_kinds(y, sp.sym):
                wit.bad(f"R16.6|{label}: {kind}", f"{where}: {label}: {text}")
        # R16.7 dense and back with the matching labels
        wit.tick("R16.7")
        ev3 = w.ev()
        xs = w.meth(ev3, sp.build(w), "phase_sync") if fm else sp.build(w)
        d = w.meth(ev3, sp.build(w), "to_dense")
        maps = []
        for t in sp.tables:
            mp, i = {}, 0
            for c in sorted(t):
                for _ in range(t[c]):
                    mp[i] = c
                    i += 1
            maps.append(mp)
        fd = prog.lookup_method(generic, "from_dense")
        y = ev3.call(fd, [d, tuple(maps), sp.duals], dict({"charge": sp.charge, "symmetry": sp.sym, "invalid_sectors": "ignore"}, **fextra),
                     self_obj=generic)
        got = {s: b.term for s, b in y.fields["_blocks"].items() if not (isinstance(b.term, tuple) and b.term and b.term[0] == "zeros")}
        wantb = {s: b.term for s, b in xs.fields["_blocks"].items()}
        if got != wantb:
            wit.bad("R16.7|dense and back", f"{where}: from_dense(to_dense(x)) with the matching labels does not return x's blocks "
                                            f"(differing sectors {sorted(set(got) ^ set(wantb))[:3] or [s for s in got if got[s] != wantb.get(s)][:3]})")
        if [ixdesc(i) for i in y.fields["_indices"]] != [ixdesc(i) for i in x.fields["_indices"]] or y.fields["_charge"] != sp.charge:
            wit.bad("R16.7|dense and back: indices", f"{where}: from_dense(to_dense(x)) does not restore indices / charge")
    except Unsupported as e:
        raise AnalysisError(f"constructors outside the evaluable sub-language: {e}")
    except Raised as e:
        wit.bad("R16.6|refused", f"{where}: raises {e.what[:120]}")
    except PYERR as e:
        wit.bad("R16.6|fails", f"{where}: {type(e).__name__}: {e}")
    except LayoutError as e:
        wit.bad("R16.7|form", f"{where}: {e}")
    return wit.w, wit.n


def _projection_job(state, job):
    """an opaque dense token with interleaved labels: blocks -> dense is the projection, reordered by charge"""
    prog, tier = state
    sym, duals, charge, maps, fm = job
    w = World(prog)
    wit = Witness()
    model = Model(sym)
    where = f"{'fermionic ' if fm else ''}{sym} duals={duals} charge={charge} labels={[dict(m) for m in maps]}"
    generic = prog.cls("FermionicArray" if fm else "AbelianArray")
    try:
        ev = w.ev()
        shape = tuple(len(m) for m in maps)
        D = STok(("D",), shape)
        fd = prog.lookup_method(generic, "from_dense")
        extra = {"oddpos": 1} if fm else {}
        z = ev.call(fd, [D, tuple(maps), duals], dict({"charge": charge, "symmetry": sym, "invalid_sectors": "ignore"}, **extra), self_obj=generic)
        wit.tick("R16.7")
        for kind, text in audit_kinds(z, sym):
            wit.bad(f"R16.7|from_dense: {kind}", f"{where}: from_dense: {text}")
        groups = []
        for m in maps:
            g = {}
            for i in range(len(m)):
                g.setdefault(m[i], []).append(i)
            groups.append(g)
        want = {}
        for sector in itertools.product(*[sorted(g) for g in groups]):
            if model.sector_charge(sector, duals) == charge:
                want[sector] = tuple((ax, tuple(g[c])) for ax, (g, c) in enumerate(zip(groups, sector)))
        got = {}
        for s, b in z.fields["_blocks"].items():
            t = b.term
            if isinstance(t, tuple) and t[0] == "gather" and t[1] == ("D",):
                picks = dict(t[2])
                got[s] = tuple((ax, picks.get(ax, tuple(range(shape[ax])))) for ax in range(len(shape)))
            else:
                got[s] = repr(t)
        if got != want:
            wit.bad("R16.7|from_dense blocks", f"{where}: from_dense does not cut out, for every charge-conserving sector, the rows / columns "
                                               f"labelled with its charges (got {sorted(got)[:3]} ..., want {sorted(want)[:3]} ...)")
        zd = w.meth(ev, z, "to_dense")
        pcs = placements(zd.term, zd.shape)
        offs = []
        for g in groups:
            o, acc = {}, 0
            for c in sorted(g):
                o[c] = (acc, acc + len(g[c]))
                acc += len(g[c])
            offs.append(o)
        wantp = {tuple(o[c] for o, c in zip(offs, s)): z.fields["_blocks"][s].term for s in want if s in z.fields["_blocks"]}
        if {w_: t for w_, t in pcs.items()} != wantp or zd.shape != shape:
            wit.bad("R16.7|projection", f"{where}: to_dense(from_dense(D)) is not the projection onto the charge-conserving sectors reordered by "
                                        f"charge (windows {sorted(pcs)[:3]} ..., expected {sorted(wantp)[:3]} ...)")
    except Unsupported as e:
        raise AnalysisError(f"from_dense / to_dense outside the evaluable sub-language: {e}")
    except Raised as e:
        wit.bad("R16.7|refused", f"{where}: raises {e.what[:120]}")
    except PYERR as e:
        wit.bad("R16.7|fails", f"{where}: {type(e).__name__}: {e}")
    except LayoutError as e:
        wit.bad("R16.7|form", f"{where}: {e}")
    return wit.w, wit.n


def projection_cases(tier):
    out = []
    labelings = {
        "Z2": [({0: 1, 1: 0, 2: 1, 3: 0, 4: 1}, {0: 0, 1: 1, 2: 1, 3: 0}), ({0: 0, 1: 0, 2: 1}, {0: 1, 1: 0, 2: 1}, {0: 1, 1: 1, 2: 0, 3: 0})],
        "U1": [({0: 1, 1: 0, 2: 1, 3: -1, 4: 0, 5: 1}, {0: 0, 1: 1, 2: -1, 3: 1, 4: 0, 5: 1}), ({0: 2, 1: 0, 2: 1}, {0: 1, 1: 0, 2: 1}, {0: 0, 1: 1, 2: 0})],
        "Z2Z2": [({0: (1, 0), 1: (0, 0), 2: (1, 0), 3: (1, 1)}, {0: (0, 0), 1: (1, 1), 2: (1, 0), 3: (0, 0)})],
    }
    for sym in list(labelings):
        # the same labelings given as dicts filled in reverse and in a shuffled order (the documented type is a dict: position -> charge)
        extra = []
        for maps in labelings[sym]:
            extra.append(tuple(dict(reversed(list(m.items()))) for m in maps))
            extra.append(tuple(dict(sorted(m.items(), key=lambda kv: (kv[0] * 7) % 5)) for m in maps))
        labelings[sym] = labelings[sym] + extra
    for sym, ls in labelings.items():
        model = Model(sym)
        for maps in ls:
            nd = len(maps)
            for duals in itertools.product((False, True), repeat=nd):
                for ch in (model.combine(), NONTRIVIAL[sym]):
                    for fm in (False, True):
                        out.append((sym, tuple(duals), ch, maps, fm))
    return out


def check_constructors(prog, ctx):
    from engine.parallel import pmap

    tier = ctx.tier
    syms = ("Z2", "U1", "Z2Z2") if tier == "quick" else ("Z2", "U1", "Z2Z2", "U1U1", "Z4")
    cases = []
    for sp in specs(tier, syms=syms, ranks=(1, 2, 3), fermionic=(False, True), drops=("none", "first")):
        cases.append(sp)
    pj = projection_cases(tier)
    wits, counts = {}, {}
    for fnj, js in ((_ctor_job, cases), (_projection_job, pj)):
        for wmap, n in pmap(fnj, (prog, tier), js):
            for k, v in wmap.items():
                wits.setdefault(k, v)
            for k, v in n.items():
                counts[k] = counts.get(k, 0) + v
    ctx.need(len(cases) >= 100 and len(pj) >= 40, f"constructors: only {len(cases)} arrays / {len(pj)} labelings")
    fb = prog.func("symmray.abelian_core:AbelianArray.from_blocks")
    fd = prog.func("symmray.abelian_core:AbelianArray.from_dense")
    texts = {
        "R16.6": (fb, "from_blocks (generic class with symmetry object / name, fixed-symmetry class, charge omitted when identity), from_fill_fn "
                      "and random build what the direct constructor builds"),
        "R16.7": (fd, "to_dense then from_dense with the matching labels is the identity; from_dense with interleaved labels then to_dense is "
                      "the projection onto the charge-conserving sectors reordered by charge"),
    }
    for rid, (f, msg) in texts.items():
        mine = {k.split("|", 1)[1]: v for k, v in wits.items() if k.startswith(rid + "|")}
        if not mine:
            ctx.check(True, rid, f, f.node, rid, f"{msg} ({counts.get(rid, 0)} abstract evaluations)")
        for fam, wmsg in sorted(mine.items()):
            ctx.check(False, rid, f, f.node, fam, f"{msg} — witness: {wmsg}")
    return len(cases), len(pj)


def check_class_tables(prog, ctx):
    """R16.8 by evaluation: utils.from_dense(symmetry=S, fermionic=F) builds the class named <S>[Fermionic]Array for every pair; each of
    those classes resolves to its own symmetry when none is given and refuses another one."""
    from engine.absarray import shaped_evaluator

    rid = "R16.8"
    w = World(prog)
    fd = prog.func("symmray.utils:from_dense")
    n = 0
    for (sym, fm), cname in sorted(FIXED.items()):
        cls = prog.cls(cname)
        # the class itself
        g = prog.lookup_method(cls, "get_class_symmetry")
        ev = shaped_evaluator(prog)
        try:
            own = ev.call(g, [], {}, self_obj=None) if g.is_static else ev.call(g, [], {}, self_obj=cls)
            okname = isinstance(own, Obj) and own.cls.name == sym
        except (Raised,) + PYERR:
            okname = False
        n += 1
        ctx.check(okname, rid, g, g.node, f"{cname}: own symmetry", f"{cname}.get_class_symmetry() resolves to the symmetry {sym}")
        other = "U1" if sym != "U1" else "Z2"
        try:
            ev.call(g, [other], {}, self_obj=None) if g.is_static else ev.call(g, [other], {}, self_obj=cls)
            refused = False
        except Raised:
            refused = True
        except PYERR:
            refused = True
        n += 1
        ctx.check(refused, rid, g, g.node, f"{cname}: other symmetry", f"{cname}.get_class_symmetry({other!r}) is refused")
        # utils.from_dense picks this class
        sp = Spec(sym, (False, True), Model(sym).combine(), (TABLES[sym][0], TABLES[sym][0]), fermionic=fm, signs=0)
        x = sp.build(w)
        ev = w.ev()
        try:
            d = w.meth(ev, sp.build(w), "to_dense")
            maps = []
            for t in sp.tables:
                mp, i = {}, 0
                for c in sorted(t):
                    for _ in range(t[c]):
                        mp[i] = c
                        i += 1
                maps.append(mp)
            y = ev.call(fd, [d, sym, tuple(maps)], {"duals": sp.duals, "fermionic": fm})
            got = y.cls.name if isinstance(y, Obj) else type(y).__name__
        except Unsupported as e:
            raise AnalysisError(f"utils.from_dense outside the evaluable sub-language: {e}")
        except (Raised,) + PYERR as e:
            got = f"{type(e).__name__}: {getattr(e, 'what', e)}"
        n += 1
        ctx.check(got == cname, rid, fd, fd.node, f"({sym!r}, {fm}) -> {got}"[:80], f"utils.from_dense(symmetry={sym!r}, fermionic={fm}) builds a {cname}"
                  + ("" if got == cname else f" — got {got}"))
        # utils.get_rand with explicit charge tables and directions: the same class, those very tables
        gr = prog.func("symmray.utils:get_rand")
        fill = lambda shape: STok(("fill", tuple(shape)), tuple(shape))  # noqa: E731

        class _Rng:
            def choice(self, seq, *a, **k):
                return list(seq)[0]

            def integers(self, lo, hi=None, *a, **k):
                return lo

        ev = shaped_evaluator(prog, extra={"get_random_fill_fn": lambda **k: fill, "np.random.default_rng": lambda *a, **k: _Rng(),
                                           "numpy.random.default_rng": lambda *a, **k: _Rng()})
        kw = {"duals": list(sp.duals), "charge": sp.charge, "seed": 7, "fermionic": fm}
        if fm:
            kw["oddpos"] = 1
        try:
            y = ev.call(gr, [sym, tuple(dict(t) for t in sp.tables)], kw)
            got = y.cls.name if isinstance(y, Obj) else type(y).__name__
            tabs = [dict(ix.fields["_chargemap"]) for ix in y.fields["_indices"]] if isinstance(y, Obj) else None
        except Unsupported as e:
            raise AnalysisError(f"utils.get_rand outside the evaluable sub-language: {e}")
        except (Raised,) + PYERR as e:
            got, tabs = f"{type(e).__name__}: {getattr(e, 'what', e)}", None
        n += 1
        ok = got == cname and tabs == [dict(t) for t in sp.tables]
        ctx.check(ok, rid, gr, gr.node, f"get_rand({sym!r}, fermionic={fm}) -> {got}"[:80],
                  f"utils.get_rand({sym!r}, <explicit charge tables>, fermionic={fm}) builds a {cname} over those tables"
                  + ("" if ok else f" — got {got} with tables {tabs}"))
    ctx.minimum(rid, 32, "8 classes x (own symmetry, refusal, utils.from_dense, utils.get_rand)")
    return n
