"""C05 — fusing is an exact, invertible re-indexing described by the fused index.

L1-L5  block-level layout contract of fuse / unfuse by abstract evaluation (rules/sem_layout.py)
"""

from __future__ import annotations

PID = "C05"
EXPLANATION = (
    "Abstract evaluation of the layout contract (L1-L5): the checker's evaluator interprets fuse (both strategies), unfuse and unfuse_all from the "
    "current source on a bounded family of arrays (symmetries Z2, U1, Z2Z2, plus U1U1 and Z4 in the thorough tier; ranks 2-4; "
    "several direction patterns; identity and non-identity charge; full and sparse sector sets; abelian and fermionic with pending "
    "signs; 3-7 groupings per rank including single-axis groups, permuted and non-adjacent axes) whose block contents are shaped "
    "tokens. A normalising token algebra (concatenation, zero-fill + slice assignment, slicing, reshape, transpose and negation "
    "are pushed to the pieces) turns every fused block into a map {window -> source block} and every block read back by unfuse "
    "into the source block itself, so the contract is compared as data: each original block lands exactly once at the window that "
    "the fused index's own sub-index table assigns (offsets = running sums in stored order), in the plan's axis order; both "
    "strategies agree; the stored order of sectors is irrelevant; the fused direction is that of the group's first axis and the "
    "fused charge the signed combination; the round trip returns every original block as itself (token identity), extras zero, "
    "indices restored; for fermionic arrays the effective signs equal those of the fermionic transpose. Positions WITHIN a window "
    "are those of the backend's row-major reshape of the transposed block (assumed). The verdict covers exactly the enumerated cases."
)
ASSUMPTIONS = ["python dicts preserve insertion order", "backend transpose/reshape/concatenate/zeros behave as numpy's (row-major)",
               "the evaluator implements the Python semantics of the sub-language the library uses (anything else fails closed)"]


def run(prog, ctx):
    from rules.sem_layout import check_layout

    ctx.rule("L1", "fused array: axis order (groups where the smallest fused axis was, in the given order), direction of each fused index = "
                   "that of the group's first axis, sub-indices = the original indices in group order, fused sectors = signed combinations")
    ctx.rule("L2", "every original block lands exactly once at the window the fused index's OWN sub-index table assigns to its sub-sector, "
                   "transposed to the plan's axis order; strategies insert and concat give identical results (also for single-axis groups "
                   "with missing sub-blocks); the result does not depend on the order in which the sectors are stored")
    ctx.rule("L3", "unfuse_all(fuse(x)) and unfusing one axis at a time (either order) give x in the plan's axis order: every block is the "
                   "original block (token identity), any extra block is zero, the indices are the original ones")
    ctx.rule("L4", "fermionic arrays: the same windows, and after the round trip the effective sign (stored sign x pending sign) of every "
                   "block equals that of the fermionic transpose to the plan's axis order")
    ctx.rule("L5", "groups containing already-fused axes: fusing an array that carries a fused leg and unfusing twice restores x; two such "
                   "arrays that differ only in the inner structure of the fused leg, fused in one session (shared plan cache), do not "
                   "receive each other's layout")
    n = check_layout(prog, ctx)
    ctx.extra_coverage = {"fuse_cases_evaluated": n}
    ctx.minimum("L2", 1, "layout")
