"""C05 — fusing is an exact, invertible re-indexing (partial: the layout contract).

R05.1  optional sub-index information is only dereferenced under a guard
R05.2  one layout, three consumers (insert, concat, unfuse) - no consumer-local re-ordering
R05.3  canonical (sorted) sub-sector order, sub-sectors accumulated in perm order
R05.4  fused direction / signed charge / position
"""

from __future__ import annotations

import ast

from engine.loader import AnalysisError, src, walk_all, walk_own

PID = "C05"
EXPLANATION_OLD = (
    "Structural analysis of the fuse / unfuse layout contract over the ASTs. (1) BlockIndex.subinfo is optional (None for "
    "indices that were never fused, and for single-axis groups, which the fuse plan passes through untouched): every "
    "`<index>.subinfo.<attr>` dereference in the package must be dominated by a not-None test of the same access path, or by "
    "the singlet-group guard, which the checker first validates against the plan generator (old index iff `g in "
    "group_singlets`, else a new BlockIndex with SubIndexInfo); documented-precondition sites are a frozen table. An unguarded "
    "dereference is the crash of the concat strategy on single-axis groups with missing sub-blocks. (2) The sub-index table "
    "`extents[charge]` is the layout contract between the two fuse strategies and unfuse: each consumer traverses it in native "
    "dict order with offsets from accum_for_split, and none re-orders it. (3) The table is filled inside a loop over the sorted "
    "sub-sectors, and sub-sectors are accumulated in the plan's permutation order, so two operands produce the same layout. "
    "(4) The fused direction is that of the group's first axis, sub-charges are signed relative to it, and groups are inserted "
    "at the minimum fused axis. Where elements land and bit-exact round trips are not decided."
)
EXPLANATION = (
    "Two analyses. (A) R05.1, a guard (null-dereference) analysis over the ASTs: BlockIndex.subinfo is optional (None for indices "
    "that were never fused and for single-axis groups, which the fuse plan passes through untouched); every `<index>.subinfo.<attr>` "
    "dereference in the package must be dominated by a not-None test of the same access path or by the singlet-group guard (which the "
    "checker first validates against the plan generator); documented-precondition sites are a frozen table. (B) L1-L4, abstract "
    "evaluation of the layout contract: the checker's evaluator interprets fuse (both strategies), unfuse and unfuse_all from the "
    "current source on a bounded family of arrays (symmetries Z2, U1, Z2Z2, plus U1U1 and Z4 in the thorough tier; ranks 2-4; "
    "several direction patterns; identity and non-identity charge; full and sparse sector sets; abelian and fermionic with pending "
    "signs; 3-7 groupings per rank including single-axis groups, permuted and non-adjacent axes) whose block contents are shaped "
    "tokens. A normalising token algebra (concatenation, zero-fill + slice assignment, slicing, reshape, transpose and negation "
    "are pushed to the pieces) turns every fused block into a map {window -> source block} and every block read back by unfuse "
    "into the source block itself, so the contract is compared as data: each original block lands exactly once at the window that "
    "the fused index's own sub-index table assigns (offsets = running sums in stored order), in the plan's axis order; both "
    "strategies agree; the stored order of sectors is irrelevant; the fused direction is that of the group's first axis and the "
    "fused charge the signed combination; the round trip returns every original block as itself (token identity), extras zero, "
    "indices restored; for fermionic arrays the effective signs equal those of the fermionic transpose. Positions WITHIN a window "
    "are those of the backend's row-major reshape of the transposed block (assumed). The verdict covers exactly the enumerated cases."
)
ASSUMPTIONS = ["python dicts preserve insertion order", "backend transpose/reshape/concatenate/zeros behave as numpy's (row-major)",
               "the evaluator implements the Python semantics of the sub-language the library uses (anything else fails closed)"]

DEREF_EXEMPT = {
    "AbelianArray.unfuse": "documented precondition: the axis to unfuse must carry sub-index information",
    "FermionicArray.unfuse": "documented precondition: the axis to unfuse must carry sub-index information",
    "BlockIndex.matches": "debug-only comparison; raises instead of returning False when exactly one side is fused",
}


def _parents(root):
    par = {}
    for n in ast.walk(root):
        for c in ast.iter_child_nodes(n):
            par[id(c)] = n
    return par


def _contains(container, node):
    if isinstance(container, list):
        return any(_contains(c, node) for c in container)
    return any(x is node for x in ast.walk(container))


def _test_implies_present(test, path, polarity=True):
    """(test is polarity) implies `path` is not None"""
    s = src(test).replace("(", "").replace(")", "")
    if polarity:
        if s in (path, f"{path} is not None"):
            return True
        if isinstance(test, ast.BoolOp) and isinstance(test.op, ast.And):
            return any(_test_implies_present(v, path, True) for v in test.values)
        return False
    return s in (f"{path} is None", f"not {path}")


def _singlet_guard(test, polarity, gvar):
    s = src(test).replace("(", "").replace(")", "")
    if polarity:
        return s == f"{gvar} not in group_singlets"
    return s == f"{gvar} in group_singlets"


def _group_var(path):
    """new_indices[position + g].subinfo -> 'g'"""
    import re

    m = re.match(r"new_indices\[position \+ (\w+)\]\.subinfo$", path)
    return m.group(1) if m else None


def check_deref(prog, ctx):
    rid = "R05.1"
    # validate the singlet guard against the plan generator
    calc = prog.func("symmray.abelian_core:calc_fuse_block_info")
    gens = [n for n in ast.walk(calc.node) if isinstance(n, ast.IfExp) and src(n.test) == "g in group_singlets"
            and isinstance(n.orelse, ast.Call) and src(n.orelse.func) == "BlockIndex"]
    ok = len(gens) == 1
    if ok:
        kws = {k.arg: k.value for k in gens[0].orelse.keywords}
        ok = "subinfo" in kws and isinstance(kws["subinfo"], ast.Call) and src(kws["subinfo"].func) == "SubIndexInfo" \
            and src(gens[0].body).startswith("old_indices[")
    ctx.check(ok, rid, calc, gens[0] if gens else calc.node, "plan generator",
              "the fuse plan builds, for group g, the untouched old index iff g in group_singlets, else a BlockIndex with "
              "SubIndexInfo (this validates `g in group_singlets` as a guard for .subinfo)")
    singlet_guard_valid = ok
    n_sites = 0
    for f in sorted(prog.funcs.values(), key=lambda f: f.fq):
        if f.parent is not None:
            continue
        par = _parents(f.node)
        # local aliases  v = <expr>.subinfo
        aliases = {}
        for a in ast.walk(f.node):
            if isinstance(a, ast.Assign) and len(a.targets) == 1 and isinstance(a.targets[0], ast.Name) \
                    and isinstance(a.value, ast.Attribute) and a.value.attr in ("subinfo", "_subinfo"):
                aliases[a.targets[0].id] = src(a.value)
        for node in ast.walk(f.node):
            if not isinstance(node, ast.Attribute):
                continue
            base = node.value
            if isinstance(base, ast.Attribute) and base.attr in ("subinfo", "_subinfo"):
                path = src(base)
            elif isinstance(base, ast.Name) and base.id in aliases and isinstance(node.ctx, ast.Load):
                path = base.id
            else:
                continue
            n_sites += 1
            q = f.qualname
            # enclosing nested function qualname for the exemption lookup uses the top-level function
            if q in DEREF_EXEMPT:
                ctx.ok(rid, f"{f.file}:{q}", f"{src(node)}: exempt - {DEREF_EXEMPT[q]}")
                continue
            guarded = False
            gvar = _group_var(path)
            cur = node
            while id(cur) in par and not guarded:
                p = par[id(cur)]
                if isinstance(p, ast.IfExp):
                    if _contains(p.body, node) and (_test_implies_present(p.test, path, True)
                                                    or (gvar and singlet_guard_valid and _singlet_guard(p.test, True, gvar))):
                        guarded = True
                    if _contains(p.orelse, node) and (_test_implies_present(p.test, path, False)
                                                      or (gvar and singlet_guard_valid and _singlet_guard(p.test, False, gvar))):
                        guarded = True
                elif isinstance(p, ast.If):
                    if _contains(p.body, node) and (_test_implies_present(p.test, path, True)
                                                    or (gvar and singlet_guard_valid and _singlet_guard(p.test, True, gvar))):
                        guarded = True
                    if _contains(p.orelse, node) and (_test_implies_present(p.test, path, False)
                                                      or (gvar and singlet_guard_valid and _singlet_guard(p.test, False, gvar))):
                        guarded = True
                elif isinstance(p, ast.comprehension):
                    if any(_test_implies_present(c, path, True) for c in p.ifs):
                        guarded = True
                # early-return guard: a preceding sibling `if g in group_singlets: ... return`
                body = getattr(p, "body", None)
                if isinstance(body, list) and gvar and singlet_guard_valid:
                    for st in body:
                        if _contains(st, node):
                            break
                        if isinstance(st, ast.If) and _singlet_guard(st.test, False, gvar) and _always_returns(st.body):
                            guarded = True
                cur = p
            ctx.check(guarded, rid, f, node, src(node)[:100],
                      f"dereference `{src(node)[:80]}` is dominated by a not-None test of `{path}` or by the singlet-group guard")
    ctx.minimum(rid, 9, "confirmed dereference sites")


def _always_returns(stmts):
    if not stmts:
        return False
    last = stmts[-1]
    if isinstance(last, (ast.Return, ast.Raise)):
        return True
    if isinstance(last, ast.If):
        return _always_returns(last.body) and _always_returns(last.orelse)
    return False


def run(prog, ctx):
    from rules.sem_layout import check_layout

    ctx.rule("R05.1", "every `.subinfo.<attr>` dereference is dominated by a not-None test of the same path or by the (validated) "
             "singlet-group guard; precondition sites are a frozen table")
    ctx.rule("L1", "fused array: axis order (groups where the smallest fused axis was, in the given order), direction of each fused index = "
                   "that of the group's first axis, sub-indices = the original indices in group order, fused sectors = signed combinations")
    ctx.rule("L2", "every original block lands exactly once at the window the fused index's OWN sub-index table assigns to its sub-sector, "
                   "transposed to the plan's axis order; strategies insert and concat give identical results; the result does not depend on "
                   "the order in which the sectors are stored")
    ctx.rule("L3", "unfuse_all(fuse(x)) and unfusing one axis at a time (either order) give x in the plan's axis order: every block is the "
                   "original block (token identity), any extra block is zero, the indices are the original ones")
    ctx.rule("L4", "fermionic arrays: the same windows, and after the round trip the effective sign (stored sign x pending sign) of every "
                   "block equals that of the fermionic transpose to the plan's axis order")
    for q, why in DEREF_EXEMPT.items():
        ctx.fact(f"{q}: {why}")
    check_deref(prog, ctx)
    n = check_layout(prog, ctx)
    ctx.extra_coverage = {"fuse_cases_evaluated": n}
    ctx.minimum("L2", 1, "layout")
