"""C05 — fusing is an exact, invertible re-indexing (partial: the layout contract).

R05.1  optional sub-index information is only dereferenced under a guard
R05.2  one layout, three consumers (insert, concat, unfuse) - no consumer-local re-ordering
R05.3  canonical (sorted) sub-sector order, sub-sectors accumulated in perm order
R05.4  fused direction / signed charge / position
"""

from __future__ import annotations

import ast

from engine.loader import AnalysisError, src, walk_all, walk_own

PID = "C05"
EXPLANATION = (
    "Structural analysis of the fuse / unfuse layout contract over the ASTs. (1) BlockIndex.subinfo is optional (None for "
    "indices that were never fused, and for single-axis groups, which the fuse plan passes through untouched): every "
    "`<index>.subinfo.<attr>` dereference in the package must be dominated by a not-None test of the same access path, or by "
    "the singlet-group guard, which the checker first validates against the plan generator (old index iff `g in "
    "group_singlets`, else a new BlockIndex with SubIndexInfo); documented-precondition sites are a frozen table. An unguarded "
    "dereference is the crash of the concat strategy on single-axis groups with missing sub-blocks. (2) The sub-index table "
    "`extents[charge]` is the layout contract between the two fuse strategies and unfuse: each consumer traverses it in native "
    "dict order with offsets from accum_for_split, and none re-orders it. (3) The table is filled inside a loop over the sorted "
    "sub-sectors, and sub-sectors are accumulated in the plan's permutation order, so two operands produce the same layout. "
    "(4) The fused direction is that of the group's first axis, sub-charges are signed relative to it, and groups are inserted "
    "at the minimum fused axis. Where elements land and bit-exact round trips are not decided."
)
ASSUMPTIONS = ["python dicts preserve insertion order"]

DEREF_EXEMPT = {
    "AbelianArray.unfuse": "documented precondition: the axis to unfuse must carry sub-index information",
    "FermionicArray.unfuse": "documented precondition: the axis to unfuse must carry sub-index information",
    "BlockIndex.matches": "debug-only comparison; raises instead of returning False when exactly one side is fused",
}


def _parents(root):
    par = {}
    for n in ast.walk(root):
        for c in ast.iter_child_nodes(n):
            par[id(c)] = n
    return par


def _contains(container, node):
    if isinstance(container, list):
        return any(_contains(c, node) for c in container)
    return any(x is node for x in ast.walk(container))


def _test_implies_present(test, path, polarity=True):
    """(test is polarity) implies `path` is not None"""
    s = src(test).replace("(", "").replace(")", "")
    if polarity:
        if s in (path, f"{path} is not None"):
            return True
        if isinstance(test, ast.BoolOp) and isinstance(test.op, ast.And):
            return any(_test_implies_present(v, path, True) for v in test.values)
        return False
    return s in (f"{path} is None", f"not {path}")


def _singlet_guard(test, polarity, gvar):
    s = src(test).replace("(", "").replace(")", "")
    if polarity:
        return s == f"{gvar} not in group_singlets"
    return s == f"{gvar} in group_singlets"


def _group_var(path):
    """new_indices[position + g].subinfo -> 'g'"""
    import re

    m = re.match(r"new_indices\[position \+ (\w+)\]\.subinfo$", path)
    return m.group(1) if m else None


def check_deref(prog, ctx):
    rid = "R05.1"
    # validate the singlet guard against the plan generator
    calc = prog.func("symmray.abelian_core:calc_fuse_block_info")
    gens = [n for n in ast.walk(calc.node) if isinstance(n, ast.IfExp) and src(n.test) == "g in group_singlets"
            and isinstance(n.orelse, ast.Call) and src(n.orelse.func) == "BlockIndex"]
    ok = len(gens) == 1
    if ok:
        kws = {k.arg: k.value for k in gens[0].orelse.keywords}
        ok = "subinfo" in kws and isinstance(kws["subinfo"], ast.Call) and src(kws["subinfo"].func) == "SubIndexInfo" \
            and src(gens[0].body).startswith("old_indices[")
    ctx.check(ok, rid, calc, gens[0] if gens else calc.node, "plan generator",
              "the fuse plan builds, for group g, the untouched old index iff g in group_singlets, else a BlockIndex with "
              "SubIndexInfo (this validates `g in group_singlets` as a guard for .subinfo)")
    singlet_guard_valid = ok
    n_sites = 0
    for f in sorted(prog.funcs.values(), key=lambda f: f.fq):
        if f.parent is not None:
            continue
        par = _parents(f.node)
        # local aliases  v = <expr>.subinfo
        aliases = {}
        for a in ast.walk(f.node):
            if isinstance(a, ast.Assign) and len(a.targets) == 1 and isinstance(a.targets[0], ast.Name) \
                    and isinstance(a.value, ast.Attribute) and a.value.attr in ("subinfo", "_subinfo"):
                aliases[a.targets[0].id] = src(a.value)
        for node in ast.walk(f.node):
            if not isinstance(node, ast.Attribute):
                continue
            base = node.value
            if isinstance(base, ast.Attribute) and base.attr in ("subinfo", "_subinfo"):
                path = src(base)
            elif isinstance(base, ast.Name) and base.id in aliases and isinstance(node.ctx, ast.Load):
                path = base.id
            else:
                continue
            n_sites += 1
            q = f.qualname
            # enclosing nested function qualname for the exemption lookup uses the top-level function
            if q in DEREF_EXEMPT:
                ctx.ok(rid, f"{f.file}:{q}", f"{src(node)}: exempt - {DEREF_EXEMPT[q]}")
                continue
            guarded = False
            gvar = _group_var(path)
            cur = node
            while id(cur) in par and not guarded:
                p = par[id(cur)]
                if isinstance(p, ast.IfExp):
                    if _contains(p.body, node) and (_test_implies_present(p.test, path, True)
                                                    or (gvar and singlet_guard_valid and _singlet_guard(p.test, True, gvar))):
                        guarded = True
                    if _contains(p.orelse, node) and (_test_implies_present(p.test, path, False)
                                                      or (gvar and singlet_guard_valid and _singlet_guard(p.test, False, gvar))):
                        guarded = True
                elif isinstance(p, ast.If):
                    if _contains(p.body, node) and (_test_implies_present(p.test, path, True)
                                                    or (gvar and singlet_guard_valid and _singlet_guard(p.test, True, gvar))):
                        guarded = True
                    if _contains(p.orelse, node) and (_test_implies_present(p.test, path, False)
                                                      or (gvar and singlet_guard_valid and _singlet_guard(p.test, False, gvar))):
                        guarded = True
                elif isinstance(p, ast.comprehension):
                    if any(_test_implies_present(c, path, True) for c in p.ifs):
                        guarded = True
                # early-return guard: a preceding sibling `if g in group_singlets: ... return`
                body = getattr(p, "body", None)
                if isinstance(body, list) and gvar and singlet_guard_valid:
                    for st in body:
                        if _contains(st, node):
                            break
                        if isinstance(st, ast.If) and _singlet_guard(st.test, False, gvar) and _always_returns(st.body):
                            guarded = True
                cur = p
            ctx.check(guarded, rid, f, node, src(node)[:100],
                      f"dereference `{src(node)[:80]}` is dominated by a not-None test of `{path}` or by the singlet-group guard")
    ctx.minimum(rid, 9, "confirmed dereference sites")


def _always_returns(stmts):
    if not stmts:
        return False
    last = stmts[-1]
    if isinstance(last, (ast.Return, ast.Raise)):
        return True
    if isinstance(last, ast.If):
        return _always_returns(last.body) and _always_returns(last.orelse)
    return False


def check_consumers(prog, ctx):
    rid = "R05.2"
    consumers = {
        "symmray.abelian_core:_fuse_blocks_via_insert": "insert",
        "symmray.abelian_core:_fuse_blocks_via_concat": "concat",
        "symmray.abelian_core:AbelianArray.unfuse": "unfuse",
    }
    for fq, label in consumers.items():
        f = prog.func(fq)
        uses = [n for n in walk_all(f.node) if isinstance(n, ast.Attribute) and n.attr == "extents"]
        ctx.check(bool(uses), rid, f, f.node, "no use of extents", f"{label} reads the layout from subinfo.extents")
        reorder = [c for c in walk_all(f.node) if isinstance(c, ast.Call) and src(c.func) in ("sorted", "reversed")
                   and any(isinstance(x, (ast.Name, ast.Attribute)) and "extent" in src(x) for x in ast.walk(c))]
        ctx.check(not reorder, rid, f, reorder[0] if reorder else f.node, src(reorder[0]) if reorder else "none",
                  f"{label} traverses each extent in its native (stored) order")
    ins = prog.func("symmray.abelian_core:_fuse_blocks_via_insert")
    ok = any(isinstance(c, ast.Call) and src(c.func) == "zip" and len(c.args) == 2 and src(c.args[1]) == f"accum_for_split({src(c.args[0])}.values())"
             for c in walk_all(ins.node))
    ctx.check(ok, rid, ins, ins.node, "offsets", "insert: offsets are the running sums of the extent's sizes, zipped with its keys")
    unf = prog.func("symmray.abelian_core:AbelianArray.unfuse")
    ok = any(isinstance(c, ast.Call) and src(c.func) == "accum_for_split" and "charge_extent.values()" in src(c.args[0])
             for c in walk_all(unf.node))
    ok = ok and any(isinstance(c, ast.Call) and src(c.func) == "zip" and src(c.args[0]) == "charge_extent" for c in walk_all(unf.node))
    ctx.check(ok, rid, unf, unf.node, "offsets", "unfuse: slices are the running sums of the extent's sizes, zipped with its keys")
    con = prog.func("symmray.abelian_core:_fuse_blocks_via_concat")
    ok = any(isinstance(n, (ast.ListComp, ast.GeneratorExp)) and src(n.generators[0].iter) == "extent" for n in walk_all(con.node))
    ctx.check(ok, rid, con, con.node, "order", "concat: sub-blocks are concatenated in the extent's key order")
    acc = prog.func("symmray.abelian_core:accum_for_split")
    ok = any(isinstance(n, ast.For) and src(n.iter) == "sizes" for n in walk_own(acc.node))
    ctx.check(ok, rid, acc, acc.node, "accum", "accum_for_split accumulates in the order given")
    ctx.minimum(rid, 10, "three consumers")


def check_canonical(prog, ctx):
    rid = "R05.3"
    calc = prog.func("symmray.abelian_core:calc_fuse_block_info")
    # the dict that becomes `extents` is filled in a loop over sorted(...)
    loops = [n for n in ast.walk(calc.node) if isinstance(n, ast.For)
             and any(isinstance(s, ast.Assign) and isinstance(s.targets[0], ast.Subscript) and "extent" in src(s.targets[0].value)
                     for b in n.body for s in ast.walk(b))]
    inner = [n for n in loops if "subinfos" in src(n.iter)]
    ctx.need(len(inner) == 1, "calc_fuse_block_info: loop filling the extents not found")
    it = inner[0].iter
    ctx.check(isinstance(it, ast.Call) and src(it.func) == "sorted", rid, calc, inner[0], src(it),
              "extents are filled by iterating the collected sub-sectors in sorted order (canonical layout)")
    # the extents dict reaches SubIndexInfo unchanged
    ok = any(isinstance(c, ast.Call) and src(c.func) == "SubIndexInfo" and any(k.arg == "extents" and src(k.value) == "extents[g]" for k in c.keywords)
             for c in ast.walk(calc.node))
    ctx.check(ok, rid, calc, calc.node, "SubIndexInfo(extents=extents[g])", "the sorted table is what the fused index carries")
    # sub-sectors accumulated in perm order
    perm_loops = [n for n in ast.walk(calc.node) if isinstance(n, ast.For) and src(n.iter) == "perm"]
    ok = len(perm_loops) == 1 and any(isinstance(c, ast.Call) and src(c.func) == "subsectors[g].append" for c in ast.walk(perm_loops[0]))
    ctx.check(ok, rid, calc, perm_loops[0] if perm_loops else calc.node, "perm loop",
              "sub-sectors are accumulated while iterating the plan's permutation (same order on both operands of a contraction)")
    grp = prog.func("symmray.abelian_core:calc_fuse_group_info")
    perm_def = [a for a in walk_own(grp.node) if isinstance(a, ast.Assign) and src(a.targets[0]) == "perm"]
    ok = len(perm_def) == 1 and "for g in axes_groups for ax in g" in src(perm_def[0].value)
    ctx.check(ok, rid, grp, grp.node, "perm", "the permutation lists each group's axes in the order the caller gave them")
    ctx.minimum(rid, 4, "sorted fill, carried table, perm accumulation, perm definition")


def check_direction(prog, ctx):
    rid = "R05.4"
    grp = prog.func("symmray.abelian_core:calc_fuse_group_info")
    ok = any(isinstance(c, ast.Call) and src(c.func) == "group_duals.append" and src(c.args[0]) == "duals[gaxes[0]]"
             for c in ast.walk(grp.node))
    ctx.check(ok, rid, grp, grp.node, "group dual", "a fused group takes the direction of its first axis")
    pos = [a for a in walk_own(grp.node) if isinstance(a, ast.Assign) and src(a.targets[0]) == "position"]
    ok = len(pos) == 1 and src(pos[0].value).replace(" ", "") == "min((min(gaxes)forgaxesinaxes_groups))"
    ctx.check(ok, rid, grp, grp.node, "position", "groups are inserted at the minimum fused axis")
    calc = prog.func("symmray.abelian_core:calc_fuse_block_info")
    sg = [a for a in ast.walk(calc.node) if isinstance(a, ast.Assign) and src(a.targets[0]) == "signed_c" and isinstance(a.value, ast.Call)]
    ok = len(sg) == 1 and src(sg[0].value) == "sign(c, group_duals[g] != ix.dual)"
    ctx.check(ok, rid, calc, sg[0] if sg else calc.node, "signed charge",
              "a sub-charge enters the fused charge with a sign iff its direction differs from the group's")
    bi = [c for c in ast.walk(calc.node) if isinstance(c, ast.Call) and src(c.func) == "BlockIndex"]
    ok = len(bi) == 1 and any(k.arg == "dual" and src(k.value) == "group_duals[g]" for k in bi[0].keywords)
    ctx.check(ok, rid, calc, calc.node, "fused index direction", "the fused index is created with the group's direction")
    ok = any(isinstance(a, ast.Assign) and src(a.targets[0]) == "new_charge" and src(a.value) == "combine(*grouped_charges[g])"
             for a in ast.walk(calc.node))
    ctx.check(ok, rid, calc, calc.node, "fused charge", "the fused charge is the combination of the signed sub-charges")
    ctx.minimum(rid, 5, "direction, position, sign, index, charge")


def run(prog, ctx):
    ctx.rule("R05.1", "every `.subinfo.<attr>` dereference is dominated by a not-None test of the same path or by the (validated) "
             "singlet-group guard; precondition sites are a frozen table")
    ctx.rule("R05.2", "insert, concat and unfuse traverse extents[charge] in native dict order with accum_for_split offsets")
    ctx.rule("R05.3", "extents are filled in sorted sub-sector order; sub-sectors are accumulated in perm order")
    ctx.rule("R05.4", "fused direction = first axis of the group; signed sub-charges; insertion at the minimum fused axis")
    for q, why in DEREF_EXEMPT.items():
        ctx.fact(f"{q}: {why}")
    check_deref(prog, ctx)
    check_consumers(prog, ctx)
    check_canonical(prog, ctx)
    check_direction(prog, ctx)
