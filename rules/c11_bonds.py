"""C11 — decompositions: structure of the factors (partial: bond bookkeeping).

R11.1  qr / svd: one bond index on the left factor, its conjugate on the right; charge table keyed by the column charge
R11.2  fermionic wrappers follow the pair-sign convention (shared with C03/R03.1)
R11.3  eigh requires the identity charge; solve's charge / index arithmetic
R11.4  truncated variant re-indexes both factors together (shared with C13/R13.4)
"""

from __future__ import annotations

import ast

from engine.loader import AnalysisError, src, walk_own

PID = "C11"
EXPLANATION = (
    "Def-use (provenance) analysis of the bond bookkeeping in linalg.qr / svd / eigh / solve over their ASTs. In qr and svd ONE "
    "BlockIndex value B flows to the left factor's second index and B.conj() to the right factor's first index; B's direction is "
    "that of the input's second index; B's charge table is keyed by the input block's column charge (sector[1]) with the size "
    "taken from the left block's column count; the right factor's sectors are (c, c) with the identity total charge; the left "
    "factor keeps the input's row index, the right factor its column index; singular values are stored under the same column "
    "charge. eigh raises unless the total charge is the identity and keys eigenvalues by the column charge; solve pairs a-blocks "
    "with b-blocks by row charge, gives the solution the conjugate of a's column index and the charge b - a. The fermionic "
    "wrappers' signs are the C03 convention sites; the truncated variant's joint re-indexing is C13's R13.4 - both are re-run "
    "here. Orthonormality, triangularity, ordering of singular values and reconstruction are numerical and not decided."
)
ASSUMPTIONS = ["backend qr/svd/eigh/solve act on each block independently"]


def _single_assign(f, name):
    d = [a for a in walk_own(f.node) if isinstance(a, ast.Assign) and len(a.targets) == 1 and src(a.targets[0]) == name]
    return d[0] if len(d) == 1 else None


def check_factor_bonds(prog, ctx):
    rid = "R11.1"
    for fname, left_names, has_s in (("qr", ("q", "r"), False), ("svd", ("u", "v"), True)):
        f = prog.func(f"symmray.linalg:{fname}")
        x = f.params()[0]
        loops = [n for n in walk_own(f.node) if isinstance(n, ast.For) and src(n.iter) == f"{x}.blocks.items()"]
        ctx.need(len(loops) == 1, f"{fname}: loop over the input blocks not found")
        lp = loops[0]
        sec = src(lp.target.elts[0])
        stores = {}
        for s in lp.body:
            if isinstance(s, ast.Assign) and isinstance(s.targets[0], ast.Subscript) and isinstance(s.targets[0].value, ast.Name):
                stores[s.targets[0].value.id] = (s.targets[0].slice, s.value)
        # local aliases inside the loop (s_charge = sector[1], v_sector = (s_charge, s_charge))
        alias = {}
        for s in lp.body:
            if isinstance(s, ast.Assign) and isinstance(s.targets[0], ast.Name):
                alias[s.targets[0].id] = s.value

        def norm(e, depth=0):
            """inline loop-local aliases"""
            if depth > 4:
                return src(e)
            if isinstance(e, ast.Name) and e.id in alias and not isinstance(alias[e.id], ast.Call):
                return norm(alias[e.id], depth + 1)
            if isinstance(e, ast.Tuple):
                return "(" + ", ".join(norm(x_, depth + 1) for x_ in e.elts) + ")"
            return src(e)

        # bond index
        bi = [a for a in walk_own(f.node) if isinstance(a, ast.Assign) and isinstance(a.value, ast.Call) and src(a.value.func) == "BlockIndex"]
        ctx.need(len(bi) == 1, f"{fname}: bond index construction not found")
        B = src(bi[0].targets[0])
        cm = src(bi[0].value.args[0])
        kws = {k.arg: src(k.value) for k in bi[0].value.keywords}
        ctx.check(kws.get("dual") == f"{x}.indices[1].dual", rid, f, bi[0], src(bi[0]), f"{fname}: the bond takes the direction of the input's second index")
        ctx.check(cm in stores and norm(stores[cm][0]) == f"{sec}[1]", rid, f, lp, f"{cm} key", f"{fname}: the bond charge table is keyed by the column charge {sec}[1]")
        if cm in stores:
            v = stores[cm][1]
            okv = isinstance(v, ast.Subscript) and src(v.slice) == "1" and isinstance(v.value, ast.Call) and src(v.value.func) == "ar.shape"
            ctx.check(okv, rid, f, lp, src(v), f"{fname}: the bond size of a charge is the left block's column count")
            if okv:
                lb = src(v.value.args[0])
                # the left block variable is the first output of the block decomposition and is stored under `sector`
                left_dicts = [d for d, (k, val) in stores.items() if src(val) == lb and norm(k) == sec]
                ctx.check(len(left_dicts) == 1, rid, f, lp, f"left blocks {left_dicts}", f"{fname}: the left factor's block is stored under the input sector")
        # left factor
        lcall = [c for c in walk_own(f.node) if isinstance(c, ast.Call) and src(c.func) == f"{x}.copy_with"]
        ctx.need(len(lcall) == 1, f"{fname}: left factor construction not found")
        lk = {k.arg: src(k.value).replace(" ", "") for k in lcall[0].keywords}
        ctx.check(lk.get("indices") == f"({x}.indices[0],{B})", rid, f, lcall[0], lk.get("indices"), f"{fname}: left factor has (input row index, bond)")
        ctx.check("charge" not in lk and "phases" not in lk, rid, f, lcall[0], str(sorted(lk)), f"{fname}: left factor keeps the input's total charge")
        # right factor
        rcall = [c for c in walk_own(f.node) if isinstance(c, ast.Call) and src(c.func) == f"{x}.__class__"]
        ctx.need(len(rcall) == 1, f"{fname}: right factor construction not found")
        rk = {k.arg: src(k.value).replace(" ", "") for k in rcall[0].keywords}
        ctx.check(rk.get("indices") == f"({B}.conj(),{x}.indices[1])", rid, f, rcall[0], rk.get("indices"),
                  f"{fname}: right factor has (conjugate of the same bond, input column index)")
        ctx.check(rk.get("charge") == f"{x}.symmetry.combine()" and rk.get("symmetry") == f"{x}.symmetry", rid, f, rcall[0], rk.get("charge"),
                  f"{fname}: right factor has the identity charge and the input's symmetry")
        rb = rk.get("blocks")
        ctx.check(rb in stores and norm(stores[rb][0]).replace(" ", "") == f"({sec}[1],{sec}[1])", rid, f, lp, f"{rb} key",
                  f"{fname}: right factor's sectors are (c, c) for the column charge c")
        if has_s:
            sv = [c for c in walk_own(f.node) if isinstance(c, ast.Call) and src(c.func) == "BlockVector"]
            ctx.need(len(sv) == 1, "svd: singular value vector not found")
            sd = src(sv[0].args[0])
            ctx.check(sd in stores and norm(stores[sd][0]) == f"{sec}[1]", rid, f, lp, f"{sd} key", "svd: singular values are keyed by the column charge")
        # 2-d only
        g = [n for n in walk_own(f.node) if isinstance(n, ast.If) and src(n.test) == f"{x}.ndim != 2" and isinstance(n.body[0], ast.Raise)]
        ctx.check(len(g) == 1, rid, f, f.node, "ndim guard", f"{fname}: anything but a matrix raises")
    ctx.minimum(rid, 18, "qr (9) + svd (10)")


def check_eigh_solve(prog, ctx):
    rid = "R11.3"
    f = prog.func("symmray.linalg:eigh")
    a = f.params()[0]
    g = [n for n in walk_own(f.node) if isinstance(n, ast.If) and src(n.test) == f"{a}.charge != {a}.symmetry.combine()" and isinstance(n.body[0], ast.Raise)]
    ctx.check(len(g) == 1, rid, f, f.node, "charge guard", "eigh raises unless the total charge is the identity")
    loops = [n for n in walk_own(f.node) if isinstance(n, ast.For) and src(n.iter) == f"{a}.blocks.items()"]
    ctx.need(len(loops) == 1, "eigh: block loop not found")
    sec = src(loops[0].target.elts[0])
    body = {src(s.targets[0]): src(s.value) for s in loops[0].body if isinstance(s, ast.Assign)}
    ok = body.get("charge") == f"{sec}[1]" and body.get("eval_blocks[charge]") == "evals" and body.get(f"evec_blocks[{sec}]") == "evecs"
    ctx.check(ok, rid, f, loops[0], str(body), "eigh: eigenvalues keyed by the column charge, eigenvectors by the input sector")
    ev = [c for c in walk_own(f.node) if isinstance(c, ast.Call) and src(c.func) == f"{a}.copy_with"]
    ctx.check(len(ev) == 1 and [k.arg for k in ev[0].keywords] == ["blocks"], rid, f, f.node, "eigenvectors", "eigenvectors keep the input's indices and charge")
    s = prog.func("symmray.linalg:solve")
    pa, pb = s.params()[:2]
    loops = [n for n in walk_own(s.node) if isinstance(n, ast.For) and src(n.iter) == f"{pa}.blocks.items()"]
    ctx.need(len(loops) == 1, "solve: block loop not found")
    sec = src(loops[0].target.elts[0])
    txt = " ".join(src(x) for x in loops[0].body)
    ok = f"b_sector = ({sec}[0],)" in txt and f"if b_sector in {pb}.blocks" in txt and f"x_sector = ({sec}[1],)" in txt \
        and f"_solve(array, {pb}.blocks[b_sector])" in txt
    ctx.check(ok, rid, s, loops[0], txt[:120], "solve: an a-block is paired with the b-block of its row charge; the solution block gets its column charge")
    xc = [a_ for a_ in walk_own(s.node) if isinstance(a_, ast.Assign) and src(a_.targets[0]) == "x_charge"]
    ctx.check(len(xc) == 1 and src(xc[0].value) == f"sym.combine({pb}.charge, sym.sign({pa}.charge))", rid, s, s.node, "x charge",
              "solve: charge of the solution = charge(b) - charge(a)")
    xcall = [c for c in walk_own(s.node) if isinstance(c, ast.Call) and src(c.func) == f"{pb}.copy_with"]
    ok = len(xcall) == 1 and {k.arg: src(k.value) for k in xcall[0].keywords} == {
        "blocks": "x_blocks", "indices": f"({pa}.indices[1].conj(),)", "charge": "x_charge"}
    ctx.check(ok, rid, s, s.node, "x index", "solve: the solution carries the conjugate of a's column index")
    g = [n for n in walk_own(s.node) if isinstance(n, ast.If) and src(n.test) == f"({pa}.ndim, {pb}.ndim) != (2, 1)" and isinstance(n.body[0], ast.Raise)]
    ctx.check(len(g) == 1, rid, s, s.node, "ndim guard", "solve: matrix and vector ranks are enforced")
    ctx.minimum(rid, 7, "eigh (3) + solve (4)")


def run(prog, ctx):
    from rules.c03_convention import check_convention
    from rules.c13_trunc import check_together

    ctx.rule("R11.1", "qr/svd: one bond index B on the left factor, B.conj() on the right; direction, charge table key and size; (c, c) sectors; identity charge")
    ctx.rule("R11.3", "eigh: identity-charge guard and keys; solve: row-charge pairing, charge b - a, conjugate column index")
    ctx.rule("R03.1", "fermionic wrappers follow the single pair-sign convention (shared with C03)")
    ctx.rule("R13.4", "the truncated variant truncates and re-indexes U, s, VH together (shared with C13)")
    check_factor_bonds(prog, ctx)
    check_eigh_solve(prog, ctx)
    check_convention(prog, ctx)
    check_together(prog, ctx)
