"""C11 — decompositions: structure of the factors (partial: bond bookkeeping).

R11.1  qr / svd: one bond index on the left factor, its conjugate on the right; charge table keyed by the column charge
R11.2  fermionic wrappers follow the pair-sign convention (shared with C03/R03.1)
R11.3  eigh requires the identity charge; solve's charge / index arithmetic
R11.4  truncated variant re-indexes both factors together (shared with C13/R13.4)
"""

from __future__ import annotations

import ast

from engine.loader import AnalysisError, src, walk_own

PID = "C11"
EXPLANATION = (
    "Def-use (provenance) analysis of the bond bookkeeping in linalg.qr / svd / eigh / solve over their ASTs. In qr and svd ONE "
    "BlockIndex value B flows to the left factor's second index and B.conj() to the right factor's first index; B's direction is "
    "that of the input's second index; B's charge table is keyed by the input block's column charge (sector[1]) with the size "
    "taken from the left block's column count; the right factor's sectors are (c, c) with the identity total charge; the left "
    "factor keeps the input's row index, the right factor its column index; singular values are stored under the same column "
    "charge. eigh raises unless the total charge is the identity and keys eigenvalues by the column charge; solve pairs a-blocks "
    "with b-blocks by row charge, gives the solution the conjugate of a's column index and the charge b - a. The fermionic "
    "wrappers' signs are the C03 convention sites; the truncated variant's joint re-indexing is C13's R13.4 - both are re-run "
    "here. Orthonormality, triangularity, ordering of singular values and reconstruction are numerical and not decided."
)
ASSUMPTIONS = ["backend qr/svd/eigh/solve act on each block independently"]


def _cases(prog):
    """small matrices over shaped tokens: every direction pattern, even/odd (zero/non-zero) charge, unequal block
    sizes (tall and wide blocks), with and without missing blocks"""
    from engine.absarray import Model, all_sectors

    out = []
    for sym, rows, cols, charges in (
        ("Z2", {0: 2, 1: 5}, {0: 4, 1: 3}, (0, 1)),
        ("U1", {-1: 2, 0: 3, 1: 4}, {-1: 5, 0: 1, 2: 2, 1: 3}, (0, 1, -1)),
        ("Z2Z2", {(0, 0): 2, (0, 1): 1, (1, 1): 3}, {(0, 0): 1, (0, 1): 4, (1, 0): 2, (1, 1): 2}, ((0, 0), (0, 1))),
    ):
        model = Model(sym)
        for d0 in (False, True):
            for d1 in (False, True):
                for ch in charges:
                    secs = all_sectors(model, (d0, d1), ch, (rows, cols))
                    if not secs:
                        continue
                    drops = [()]
                    if len(secs) > 1:
                        drops.append((secs[0],))
                    for drop in drops:
                        # charges that no stored sector uses are absent from a valid array's tables only after sync; keep them
                        out.append((sym, (d0, d1), ch, (dict(rows), dict(cols)), drop))
    return out


def _ix(o):
    return (dict(o.fields["_chargemap"]), o.fields["_dual"])


def check_factor_bonds(prog, ctx):
    """R11.1 by abstract evaluation: qr and svd are evaluated (checker's evaluator, block contents are shaped tokens, the
    backend factorisation of an m x n block returns tokens of shapes (m,k),(k,n), k=min(m,n)) on small matrices; the
    factors' structure is compared with the promise and both are audited with the C01 validity predicate."""
    from engine.absarray import audit, shaped_array, shaped_evaluator
    from engine.minieval import Obj, Raised, Unsupported

    rid = "R11.1"
    for fname, nout in (("qr", 2), ("svd", 3)):
        f = prog.func(f"symmray.linalg:{fname}")
        wit = {}
        n = 0

        def bad(key, msg):
            wit.setdefault(key, msg)

        for sym, duals, ch, cms, drop in _cases(prog):
            x = shaped_array(prog, sym, duals, ch, cms, drop=drop)
            ev = shaped_evaluator(prog)
            where = f"{sym} duals={duals} charge={ch} missing={list(drop)}"
            try:
                res = ev.call(f, [x])
            except Unsupported as e:
                raise AnalysisError(f"{fname} outside the evaluable sub-language: {e}")
            except (Raised, KeyError, TypeError, AttributeError, ValueError, IndexError) as e:
                bad("runs", f"{where}: {type(e).__name__}: {getattr(e, 'what', e)}")
                continue
            n += 1
            if not isinstance(res, tuple) or len(res) != nout:
                bad("runs", f"{where}: returns {type(res).__name__} of length {len(res) if isinstance(res, tuple) else '?'}")
                continue
            left, right = res[0], res[-1]
            for nm, o in (("left", left), ("right", right)):
                for pr in audit(o, sym, want_class="AbelianArray"):
                    bad("valid", f"{where}: {nm} factor: {pr}")
            if wit.get("valid"):
                continue
            xb = x.fields["_blocks"]
            k = {s[1]: min(t.shape) for s, t in xb.items()}
            B = left.fields["_indices"][1]
            Bc = right.fields["_indices"][0]
            if _ix(left.fields["_indices"][0]) != _ix(x.fields["_indices"][0]) or _ix(right.fields["_indices"][1]) != _ix(x.fields["_indices"][1]):
                bad("outer", f"{where}: the factors do not keep the input's row index on the left and column index on the right")
            if B.fields["_dual"] != duals[1]:
                bad("direction", f"{where}: the bond on the left factor has direction {B.fields['_dual']}, the input's column index has {duals[1]}")
            if Bc.fields["_dual"] == B.fields["_dual"]:
                bad("direction", f"{where}: the bond has the same direction on both factors")
            if dict(B.fields["_chargemap"]) != dict(sorted(k.items())) or dict(Bc.fields["_chargemap"]) != dict(sorted(k.items())):
                bad("table", f"{where}: bond charge tables {B.fields['_chargemap']} / {Bc.fields['_chargemap']}, expected one charge per "
                             f"input block keyed by its column charge with the factor's column count: {dict(sorted(k.items()))}")
            lb, rb = left.fields["_blocks"], right.fields["_blocks"]
            if set(lb) != set(xb):
                bad("sectors", f"{where}: left factor sectors {sorted(lb)} != input sectors {sorted(xb)}")
            if set(rb) != {(s[1], s[1]) for s in xb}:
                bad("sectors", f"{where}: right factor sectors {sorted(rb)} are not (c, c) for the column charges c")
            lname, rname = ("q", "r") if fname == "qr" else ("u", "vh")
            for s, t in xb.items():
                if s in lb and getattr(lb[s], "term", None) != (lname, t.term):
                    bad("blocks", f"{where}: left block {s} is {lb[s]!r}, not the {lname}-factor of input block {s}")
                if (s[1], s[1]) in rb and getattr(rb[(s[1], s[1])], "term", None) != (rname, t.term):
                    bad("blocks", f"{where}: right block {(s[1], s[1])} is {rb[(s[1], s[1])]!r}, not the {rname}-factor of input block {s}")
            if left.fields["_charge"] != ch or right.fields["_charge"] != shaped_identity(sym):
                bad("charge", f"{where}: charges ({left.fields['_charge']}, {right.fields['_charge']}), expected ({ch}, identity)")
            if left.fields["_symmetry"].cls is not x.fields["_symmetry"].cls or right.fields["_symmetry"].cls is not x.fields["_symmetry"].cls:
                bad("charge", f"{where}: a factor does not carry the input's symmetry")
            if fname == "svd":
                sv = res[1]
                sb = sv.fields["_blocks"] if isinstance(sv, Obj) else None
                if sb is None or {c: getattr(t, "term", None) for c, t in sb.items()} != {s[1]: ("s", t.term) for s, t in xb.items()}:
                    bad("values", f"{where}: singular values are not keyed by the column charge of the block they come from")
                elif any(t.shape != (k[c],) for c, t in sb.items()):
                    bad("values", f"{where}: singular value counts do not match the bond sizes")
        # rank guard
        for nd in (1, 3):
            x = shaped_array(prog, "Z2", (False,) * nd, 0, tuple({0: 2, 1: 2} for _ in range(nd)))
            try:
                shaped_evaluator(prog).call(f, [x])
                bad("rank", f"a {nd}-dimensional input is accepted")
            except Raised:
                pass
            except Unsupported as e:
                raise AnalysisError(f"{fname} outside the evaluable sub-language: {e}")
            except (KeyError, TypeError, AttributeError, ValueError, IndexError):
                bad("rank", f"a {nd}-dimensional input fails with an unrelated error instead of the explicit rank error")
        ctx.need(n >= 20 or wit, f"{fname}: only {n} abstract evaluations completed")
        msgs = {
            "runs": f"{fname}: evaluates on every small matrix ({n} cases)",
            "valid": f"{fname}: both factors are valid arrays (sector charges, block shapes, sorted positive tables)",
            "outer": f"{fname}: left factor keeps the input row index, right factor the input column index",
            "direction": f"{fname}: the bond takes the direction of the input's second index on the left factor and the opposite on the right",
            "table": f"{fname}: one bond charge per input block, keyed by the block's column charge, sized by the factor's column count",
            "sectors": f"{fname}: left factor has the input's sectors, right factor (c, c) per column charge",
            "blocks": f"{fname}: each factor block comes from the input block of the same column charge",
            "charge": f"{fname}: left factor keeps the total charge, right factor has the identity charge, same symmetry",
            "rank": f"{fname}: anything but a matrix raises",
        }
        if fname == "svd":
            msgs["values"] = "svd: singular values keyed by column charge, counts equal to the bond sizes"
        for key, msg in msgs.items():
            ctx.check(key not in wit, rid, f, f.node, key, msg + ("" if key not in wit else f" — witness: {wit[key]}"))
    ctx.minimum(rid, 19, "qr (9) + svd (10)")


def shaped_identity(sym):
    from engine.absarray import Model

    return Model(sym).combine()


def check_eigh_solve(prog, ctx):
    """R11.3 by abstract evaluation of eigh and solve on small matrices / vectors of shaped tokens."""
    from engine.absarray import Model, STok, all_sectors, audit, make_index, make_symmetry, shaped_array, shaped_evaluator
    from engine.minieval import Obj, Raised, Unsupported

    rid = "R11.3"
    f = prog.func("symmray.linalg:eigh")
    wit = {}

    def bad(key, msg):
        wit.setdefault(key, msg)

    n = 0
    for sym, cm, odd in (("Z2", {0: 2, 1: 3}, 1), ("U1", {-1: 2, 0: 1, 1: 3}, 1), ("Z2Z2", {(0, 0): 2, (1, 0): 1, (1, 1): 2}, (0, 1))):
        ident = shaped_identity(sym)
        for d0 in (False, True):
            duals = (d0, not d0)
            secs = all_sectors(Model(sym), duals, ident, (cm, cm))
            for drop in ((), (secs[0],)):
                a = shaped_array(prog, sym, duals, ident, (dict(cm), dict(cm)), drop=drop)
                where = f"{sym} duals={duals} missing={list(drop)}"
                try:
                    res = shaped_evaluator(prog).call(f, [a])
                except Unsupported as e:
                    raise AnalysisError(f"eigh outside the evaluable sub-language: {e}")
                except (Raised, KeyError, TypeError, AttributeError, ValueError, IndexError) as e:
                    bad("runs", f"{where}: {type(e).__name__}: {getattr(e, 'what', e)}")
                    continue
                n += 1
                if not isinstance(res, tuple) or len(res) != 2 or not isinstance(res[0], Obj) or not isinstance(res[1], Obj):
                    bad("runs", f"{where}: does not return (eigenvalues, eigenvectors)")
                    continue
                w, v = res
                for pr in audit(v, sym, want_class="AbelianArray"):
                    bad("vectors", f"{where}: eigenvectors: {pr}")
                ab = a.fields["_blocks"]
                if {c: getattr(t, "term", None) for c, t in w.fields["_blocks"].items()} != {s[1]: ("evals", t.term) for s, t in ab.items()}:
                    bad("keys", f"{where}: eigenvalues {w.fields['_blocks']} are not keyed by the column charge of their block")
                if {s: getattr(t, "term", None) for s, t in v.fields["_blocks"].items()} != {s: ("evecs", t.term) for s, t in ab.items()}:
                    bad("keys", f"{where}: eigenvector blocks are not stored under the input sector")
                if [_ix(i) for i in v.fields["_indices"]] != [_ix(i) for i in a.fields["_indices"]] or v.fields["_charge"] != ident:
                    bad("vectors", f"{where}: eigenvectors do not keep the input's indices and charge")
        # non-identity charge must raise (square blocks exist for odd charge when directions are equal; use any valid one)
        a = shaped_array(prog, sym, (False, False), odd, (dict(cm), dict(cm)))
        try:
            shaped_evaluator(prog).call(f, [a])
            bad("guard", f"{sym}: a matrix of total charge {odd} is accepted")
        except Raised as e:
            pass
        except Unsupported as e:
            raise AnalysisError(f"eigh outside the evaluable sub-language: {e}")
        except (KeyError, TypeError, AttributeError, ValueError, IndexError) as e:
            bad("guard", f"{sym}: a matrix of total charge {odd} fails with {type(e).__name__} instead of the explicit charge error")
    ctx.need(n >= 8 or wit, f"eigh: only {n} abstract evaluations completed")
    for key, msg in (("runs", f"eigh evaluates on every small identity-charge matrix ({n} cases)"),
                     ("guard", "eigh raises unless the total charge is the identity"),
                     ("keys", "eigh: eigenvalues keyed by the column charge, eigenvectors by the input sector"),
                     ("vectors", "eigh: eigenvectors are a valid array with the input's indices and charge")):
        ctx.check(key not in wit, rid, f, f.node, key, msg + ("" if key not in wit else f" — witness: {wit[key]}"))

    s = prog.func("symmray.linalg:solve")
    wit = {}
    n = 0
    for sym, cm, charges in (("Z2", {0: 2, 1: 3}, (0, 1)), ("U1", {-1: 2, 0: 1, 1: 3}, (0, 1, -1)),
                             ("Z2Z2", {(0, 0): 2, (1, 0): 1, (1, 1): 2}, ((0, 0), (1, 0)))):
        model = Model(sym)
        cm0 = cm
        for d0 in (False, True):
            for d1 in (False, True):
                for ca in charges:
                    for cb in charges:
                        for db in (False, True):
                            # the backend solves square blocks only: unequal sizes per charge are used where a's blocks are
                            # diagonal (identity charge, opposite directions), equal sizes elsewhere
                            if not (ca == model.combine() and d0 != d1):
                                cm = {c: 3 for c in cm0}
                            else:
                                cm = dict(cm0)
                            asecs = all_sectors(model, (d0, d1), ca, (cm, cm))
                            if not asecs:
                                continue
                            a = shaped_array(prog, sym, (d0, d1), ca, (dict(cm), dict(cm)), tag="a")
                            bsecs = all_sectors(model, (db,), cb, (cm,))
                            if not bsecs:
                                continue
                            b = shaped_array(prog, sym, (db,), cb, (dict(cm),), tag="b")
                            where = f"{sym} a: duals={(d0, d1)} charge={ca}; b: dual={db} charge={cb}"
                            try:
                                x = shaped_evaluator(prog).call(s, [a, b])
                            except Unsupported as e:
                                raise AnalysisError(f"solve outside the evaluable sub-language: {e}")
                            except (Raised, KeyError, TypeError, AttributeError, ValueError, IndexError) as e:
                                wit.setdefault("runs", f"{where}: {type(e).__name__}: {getattr(e, 'what', e)}")
                                continue
                            n += 1
                            if not isinstance(x, Obj):
                                wit.setdefault("runs", f"{where}: no array returned")
                                continue
                            # a contracts its column index with x: x's index is the conjugate of a's column index
                            if len(x.fields["_indices"]) != 1 or _ix(x.fields["_indices"][0]) != (dict(cm), not d1):
                                wit.setdefault("index", f"{where}: the solution's index is {[_ix(i) for i in x.fields['_indices']]}, "
                                                        f"expected the conjugate of a's column index")
                                continue
                            want_charge = model.combine(cb, model.sign(ca))
                            if x.fields["_charge"] != want_charge:
                                wit.setdefault("charge", f"{where}: solution charge {x.fields['_charge']}, expected charge(b) - charge(a) = {want_charge}")
                            # which blocks: a-block (r, c) pairs with b-block (r,) and produces x-block (c,)
                            want = {}
                            for (r, c), t in a.fields["_blocks"].items():
                                if (r,) in b.fields["_blocks"]:
                                    want[(c,)] = ("solve", t.term, b.fields["_blocks"][(r,)].term)
                            got = {k_: getattr(t, "term", None) for k_, t in x.fields["_blocks"].items()}
                            if got != want:
                                wit.setdefault("pairing", f"{where}: solution blocks {got}, expected {want}")
                            # validity of x holds whenever a's rows can meet b (same direction convention as the library's matvec)
                            if db == d0 and x.fields["_blocks"]:
                                # A x = b with b's index being a's row index
                                for pr in audit(x, sym):
                                    wit.setdefault("valid", f"{where}: solution: {pr}")
    for nd in ((1, 1), (2, 2), (3, 1)):
        a = shaped_array(prog, "Z2", (False,) * nd[0], 0, tuple({0: 2, 1: 2} for _ in range(nd[0])))
        b = shaped_array(prog, "Z2", (False,) * nd[1], 0, tuple({0: 2, 1: 2} for _ in range(nd[1])))
        try:
            shaped_evaluator(prog).call(s, [a, b])
            wit.setdefault("rank", f"operands of ranks {nd} are accepted")
        except Raised:
            pass
        except Unsupported as e:
            raise AnalysisError(f"solve outside the evaluable sub-language: {e}")
        except (KeyError, TypeError, AttributeError, ValueError, IndexError):
            wit.setdefault("rank", f"operands of ranks {nd} fail with an unrelated error instead of the explicit rank error")
    ctx.need(n >= 20 or wit, f"solve: only {n} abstract evaluations completed")
    for key, msg in (("runs", f"solve evaluates on every small system ({n} cases)"),
                     ("pairing", "solve: an a-block is paired with the b-block of its row charge; the solution block gets its column charge"),
                     ("charge", "solve: charge of the solution = charge(b) - charge(a)"),
                     ("index", "solve: the solution carries the conjugate of a's column index"),
                     ("valid", "solve: the solution is a valid array"),
                     ("rank", "solve: matrix and vector ranks are enforced")):
        ctx.check(key not in wit, rid, s, s.node, key, msg + ("" if key not in wit else f" — witness: {wit[key]}"))
    ctx.minimum(rid, 10, "eigh (4) + solve (6)")


class NumVec:
    """a small concrete vector of representative pivot values (zero, positive, negative): elementwise arithmetic only"""

    _abstract = True

    def __init__(self, vals):
        self.vals = tuple(vals)
        self.term = ("numvec", self.vals)
        self.shape = (len(self.vals),)

    def _el(self, o, fn):
        if isinstance(o, NumVec):
            return NumVec(fn(a, b) for a, b in zip(self.vals, o.vals))
        return NumVec(fn(a, o) for a in self.vals)

    def __add__(self, o):
        return self._el(o, lambda a, b: a + b)

    __radd__ = __add__

    def __sub__(self, o):
        return self._el(o, lambda a, b: a - b)

    def __mul__(self, o):
        return self._el(o, lambda a, b: a * b)

    __rmul__ = __mul__

    def __truediv__(self, o):
        return self._el(o, lambda a, b: a / b)

    def __neg__(self):
        return NumVec(-a for a in self.vals)

    def __eq__(self, o):
        return self._el(o, lambda a, b: a == b)

    def __ne__(self, o):
        return self._el(o, lambda a, b: a != b)

    def __hash__(self):
        return hash(self.vals)

    def reshape(self, *a):
        return self


def check_stabilized(prog, ctx):
    """R11.4: the sign correction of the stabilised QR. The closure returned by _get_qr_fn(backend, stabilized=True) is
    evaluated with the backend's qr returning tokens and the diagonal of R replaced by the representative pivots (0, +2, -3):
    the factor applied to Q's columns and R's rows must be +1, +1, -1 - in particular a zero pivot must not annihilate a column
    of Q or a row of R."""
    from fractions import Fraction

    from engine.absarray import STok, shaped_evaluator, shaped_libfn
    from engine.minieval import Closure, Raised, Unsupported

    rid = "R11.4"
    f = prog.func("symmray.linalg:_get_qr_fn")
    pivots = (Fraction(0), Fraction(2), Fraction(-3))
    base = shaped_libfn()

    def get(backend, name):
        short = name.split(".")[-1]
        if short == "diag":
            return lambda r: NumVec(pivots)
        if short == "abs":
            return lambda v: NumVec(abs(a) for a in v.vals) if isinstance(v, NumVec) else base(backend, name)(v)
        if short == "sign":
            return lambda v: NumVec((a > 0) - (a < 0) for a in v.vals) if isinstance(v, NumVec) else base(backend, name)(v)
        if short == "reshape":
            return lambda v, shape: v if isinstance(v, NumVec) else base(backend, name)(v, shape)
        if short in ("where", "maximum", "minimum", "copysign", "sqrt", "conj"):
            raise AnalysisError(f"stabilised QR uses backend function {short!r}: extend rules/c11_bonds.check_stabilized")
        return base(backend, name)

    ev = shaped_evaluator(prog, extra={"ar.get_lib_fn": get})
    try:
        qr_fn = ev.call(f, ["tok"], {"stabilized": True})
        x = STok(("x",), (3, 3))
        res = ev.apply(qr_fn, [x], {}, f)
    except Unsupported as e:
        raise AnalysisError(f"_get_qr_fn outside the evaluable sub-language: {e}")
    except (Raised, KeyError, TypeError, AttributeError, ValueError, IndexError, ZeroDivisionError) as e:
        ctx.check(False, rid, f, f.node, "runs", f"the stabilised QR closure evaluates on representative pivots — {type(e).__name__}: {getattr(e, 'what', e)}")
        return
    ok_shape = isinstance(res, tuple) and len(res) == 2 and all(isinstance(t, STok) for t in res)
    ctx.need(ok_shape, "stabilised QR: the closure does not return (q, r) tokens")

    def factor(t):
        term = t.term
        if isinstance(term, tuple) and term[0] == "mul" and isinstance(term[2], tuple) and term[2][0] == "numvec":
            return term[2][1]
        return None

    fq, fr = factor(res[0]), factor(res[1])
    want = (1, 1, -1)
    ctx.check(fq is not None and tuple(fq) == want, rid, f, f.node, "q factor",
              f"stabilised QR: Q's columns are multiplied by +1 for zero and positive pivots and -1 for negative ones (pivots {tuple(map(str, pivots))} "
              f"-> factor {None if fq is None else tuple(map(str, fq))}); a zero factor would annihilate a column of Q")
    ctx.check(fr is not None and tuple(fr) == want, rid, f, f.node, "r factor",
              f"stabilised QR: R's rows are multiplied by the same unit factor (-> {None if fr is None else tuple(map(str, fr))}), "
              f"so the diagonal becomes non-negative and q @ r is unchanged")
    ctx.minimum(rid, 2, "q and r factors")


def run(prog, ctx):
    from rules.c03_convention import check_convention
    from rules.c13_trunc import check_together

    ctx.rule("R11.1", "qr/svd: one bond index B on the left factor, B.conj() on the right; direction, charge table key and size; (c, c) sectors; identity charge")
    ctx.rule("R11.3", "eigh: identity-charge guard and keys; solve: row-charge pairing, charge b - a, conjugate column index")
    ctx.rule("R03.1", "fermionic wrappers follow the single pair-sign convention (shared with C03)")
    ctx.rule("R13.4", "the truncated variant truncates and re-indexes U, s, VH together (shared with C13)")
    ctx.rule("R11.4", "stabilised QR: the sign correction is +1 / +1 / -1 on zero / positive / negative pivots, applied to Q's columns and R's rows")
    qr_ = prog.func("symmray.linalg:qr")
    ctx.guarded("R11.1", qr_, check_factor_bonds, prog, ctx)
    ctx.guarded("R11.3", prog.func("symmray.linalg:eigh"), check_eigh_solve, prog, ctx)
    ctx.guarded("R11.4", prog.func("symmray.linalg:_get_qr_fn"), check_stabilized, prog, ctx)
    ctx.guarded("R03.1", prog.func("symmray.linalg:qr_fermionic"), check_convention, prog, ctx)
    ctx.guarded("R13.4", prog.func("symmray.linalg:svd_truncated"), check_together, prog, ctx)
