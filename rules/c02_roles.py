"""C02 — abelian contraction equals dense contraction (block level).

K1, K2  block-level semantics of tensordot in every mode by abstract evaluation (rules/sem_contract.py)
K4      entry points: axes forms, matmul, trace, einsum, scalar results, refusals
"""

from __future__ import annotations

PID = "C02"
EXPLANATION = (
    "Abstract evaluation of the contraction entry points. The checker's evaluator interprets tensordot_abelian (modes blockwise, "
    "fused, auto), __matmul__, trace and the single-operand einsum, with everything they call, from the current source on a bounded "
    "family of operand pairs whose block contents are shaped tokens (symmetries Z2, U1, plus Z2Z2, U1U1, Z4 in the thorough tier; "
    "ranks 1-4; several direction patterns; identity and non-identity charges; 0-3 contracted axes in given and reversed order, as a "
    "pair of tuples, as an integer and with negative numbers; 0-2 extra free axes; operands whose present sectors differ, including "
    "pairs with no aligned sector). A normalising token algebra reduces every result block of every mode to a set of pair products "
    "tensordot(a_block, b_block, paired axes); the set must be exactly the one the DEFINITION of a block-sparse contraction gives "
    "(computed by the checker from the operands' sectors: a-blocks and b-blocks with equal charges on the contracted axes, filed "
    "under a's free charges followed by b's), the result charge must be combine(a.charge, b.charge), the result indices the "
    "operands' free indices, and the result must pass the validity audit. Scalar results must be the sum itself, or 0.0 when "
    "nothing aligns; unknown modes and unequal axes must be refused. With the backend's tensordot correct on each pair of blocks "
    "(assumed), equality of the pair-product sets is equality with the dense contraction restricted to the result's sectors. "
    "Numerical values, dtypes and to_dense itself are not examined; the verdict covers exactly the enumerated cases."
)
ASSUMPTIONS = ["backend tensordot/transpose/reshape/concatenate/zeros/trace/einsum behave as numpy's on each block",
               "the evaluator implements the Python semantics of the sub-language the library uses (anything else fails closed)"]


def run(prog, ctx):
    from rules.sem_contract import check_contraction, check_entrypoints

    ctx.rule("K1", "blockwise: result sectors, pair products, charge and indices are those of the definition of a block-sparse contraction")
    ctx.rule("K2", "fused / auto: the same pair products per result sector as the definition, no product of misaligned fused layouts; same "
                   "rank, indices, charge, sectors and block shapes as blockwise")
    ctx.rule("K4", "integer and negative axes, matmul, trace, tracing / permuting einsum, scalar results (0.0 when nothing aligns), refusal "
                   "of unknown modes and unequal axes agree with the definition")
    n = check_contraction(prog, ctx, rules=("K1", "K2"), fermionic_too=False)
    m = check_entrypoints(prog, ctx)
    ctx.extra_coverage = {"contraction_cases_evaluated": n, "entry_point_cases_evaluated": m}
    ctx.minimum("K1", 1, "blockwise")
    ctx.minimum("K4", 1, "entry points")
