"""C02 — abelian contraction equals dense contraction (partial: operand-role consistency).

R02.1  role typing: A-things index A-things, B-things index B-things; result = A-left + B-right
R02.2  mode switch exhaustive
R02.3  axes normalisation of tensordot_abelian and tensordot_fermionic agree
R02.4  scalar-result protocol agrees across its sites
R02.5  literal axes tables are consistent
"""

from __future__ import annotations

import ast
import itertools

from engine.loader import AnalysisError, src, walk_own

PID = "C02"
EXPLANATION = (
    "Role typing of the contraction code: every value in _tensordot_blockwise, drop_misaligned_sectors, _tensordot_via_fused, "
    "tensordot_abelian, tensordot_fermionic gets the role of the operand it belongs to (A: a, a.ndim, sectors iterated from "
    "a.blocks, axes_a, left_axes; B likewise) by provenance, and in every expression of the forms `S[i] for i in AX`, `x % n for x "
    "in AX`, `without(X, AX)`, `X.indices`, block lookups and the backend tensordot call, container and index source must have the "
    "same role; the result sector is A-left followed by B-right and the result indices are built in the same order. The mode "
    "switch is exhaustive; the axes normalisation of the abelian and fermionic entry points are alpha-equivalent; the "
    "scalar-result protocol (0-d and not preserve_array -> blocks[()], KeyError -> 0.0) agrees at all its sites; the literal "
    "(ndim_a, ndim_b) and scalar/vector/matrix tables partition each operand's axes into free and contracted, contract the last "
    "axis of the left with the first of the right, and cover all key combinations. A role mix-up pairs the wrong blocks for "
    "every operand pair whose A and B axes differ. The numbers themselves are not decided."
)
ASSUMPTIONS = ["operands a and b have matching contracted indices"]

AC = "symmray.abelian_core"


def roles_of(f):
    """name -> 'A' | 'B' by provenance within f"""
    roles = {}
    params = f.all_params()
    base = {"a": "A", "b": "B", "axes_a": "A", "axes_b": "B", "left_axes": "A", "right_axes": "B", "self": "A", "other": "B"}
    for p in params:
        if p in base:
            roles[p] = base[p]
    changed = True
    n = 0
    while changed and n < 6:
        changed = False
        n += 1
        for node in ast.walk(f.node):
            tgt_val = []
            if isinstance(node, ast.Assign) and len(node.targets) == 1:
                tgt_val.append((node.targets[0], node.value))
            elif isinstance(node, ast.For):
                tgt_val.append((node.target, node.iter))
            elif isinstance(node, ast.comprehension):
                tgt_val.append((node.target, node.iter))
            for t, v in tgt_val:
                r = role_of_expr(v, roles)
                if r is None:
                    continue
                names = [t.id] if isinstance(t, ast.Name) else [e.id for e in ast.walk(t) if isinstance(e, ast.Name)]
                for nm in names:
                    if nm in ("i", "c", "ax", "x"):
                        continue
                    if roles.get(nm) is None:
                        roles[nm] = r
                        changed = True
                    elif roles[nm] != r and roles[nm] != "AB":
                        roles[nm] = "AB"
    return roles


def role_of_expr(e, roles):
    rs = {roles[n.id] for n in ast.walk(e) if isinstance(n, ast.Name) and n.id in roles and roles[n.id] in ("A", "B")}
    if len(rs) == 1:
        return rs.pop()
    return None


def check_roles(prog, ctx):
    rid = "R02.1"
    n = 0
    for fq in (f"{AC}:_tensordot_blockwise", f"{AC}:drop_misaligned_sectors", f"{AC}:_tensordot_via_fused",
               f"{AC}:tensordot_abelian", "symmray.fermionic_core:tensordot_fermionic"):
        f = prog.func(fq)
        roles = roles_of(f)
        parent = {}
        for n_ in ast.walk(f.node):
            for c_ in ast.iter_child_nodes(n_):
                parent[id(c_)] = n_

        def scoped_role(name_node):
            """role of a name bound by the nearest enclosing comprehension / for loop, else the function-level role"""
            cur = name_node
            while id(cur) in parent:
                cur = parent[id(cur)]
                gens = []
                if isinstance(cur, (ast.GeneratorExp, ast.ListComp, ast.SetComp, ast.DictComp)):
                    gens = [(g_.target, g_.iter) for g_ in cur.generators]
                elif isinstance(cur, ast.For):
                    gens = [(cur.target, cur.iter)]
                for (t_, it_) in gens:
                    if any(isinstance(x_, ast.Name) and x_.id == name_node.id for x_ in ast.walk(t_)):
                        r_ = role_of_expr(it_, roles)
                        if r_ is not None:
                            return r_
            return roles.get(name_node.id)

        for node in ast.walk(f.node):
            # S[i] for i in AX   /  x % N for x in AX
            if isinstance(node, (ast.GeneratorExp, ast.ListComp)) and len(node.generators) == 1:
                g = node.generators[0]
                src_role = role_of_expr(g.iter, roles)
                elt = node.elt
                if isinstance(elt, ast.Subscript) and isinstance(elt.value, ast.Name) and isinstance(g.target, ast.Name) \
                        and src(elt.slice) == g.target.id:
                    cont_role = scoped_role(elt.value)
                    if src_role in ("A", "B") and cont_role in ("A", "B"):
                        n += 1
                        ctx.check(src_role == cont_role, rid, f, node, src(node),
                                  f"`{src(node)}`: a {cont_role}-operand container is indexed by {src_role}-operand axes")
                if isinstance(elt, ast.BinOp) and isinstance(elt.op, ast.Mod):
                    mod_role = role_of_expr(elt.right, roles)
                    if src_role in ("A", "B") and mod_role in ("A", "B"):
                        n += 1
                        ctx.check(src_role == mod_role, rid, f, node, src(node),
                                  f"`{src(node)}`: {src_role}-operand axes are normalised modulo a {mod_role}-operand rank")
            # without(X, AX)
            if isinstance(node, ast.Call) and src(node.func) == "without" and len(node.args) == 2:
                r1, r2 = role_of_expr(node.args[0], roles), role_of_expr(node.args[1], roles)
                if r1 in ("A", "B") and r2 in ("A", "B"):
                    n += 1
                    ctx.check(r1 == r2, rid, f, node, src(node), f"`{src(node)}`: {r1}-operand items are filtered by {r2}-operand axes")
            # backend contraction of a pair of blocks
            if isinstance(node, ast.Call) and src(node.func) == "_tensordot" and len(node.args) == 2:
                kw = {k.arg: k.value for k in node.keywords}
                ax = kw.get("axes")
                if isinstance(ax, ast.Tuple) and len(ax.elts) == 2:
                    n += 1
                    ctx.check(src(ax.elts[0]) == "axes_a" and src(ax.elts[1]) == "axes_b", rid, f, node, src(node),
                              "the backend contraction pairs a's block with axes_a and b's block with axes_b")
        # range(ndim_X) with axes_X
    f = prog.func(f"{AC}:_tensordot_blockwise")
    ns = [a for a in ast.walk(f.node) if isinstance(a, ast.Assign) and src(a.targets[0]) == "new_sector"]
    ctx.check(len(ns) == 1 and src(ns[0].value) == "sector_left + sector_right", rid, f, f.node, "result sector",
              "the result sector is a's free charges followed by b's free charges")
    ni = [a for a in walk_own(f.node) if isinstance(a, ast.Assign) and src(a.targets[0]) == "new_indices"]
    ctx.check(len(ni) == 1 and src(ni[0].value).replace(" ", "") == "list(without(a.indices,axes_a)+without(b.indices,axes_b))", rid, f, f.node,
              "result indices", "the result indices are a's free indices followed by b's free indices (same order as the sectors)")
    # grouping key agreement: b grouped by its contracted sub-sector, looked up with a's contracted sub-sector
    grp = [c for c in ast.walk(f.node) if isinstance(c, ast.Call) and src(c.func) == "aligned_blocks[sector_contracted].append"]
    look = [n_ for n_ in ast.walk(f.node) if isinstance(n_, ast.For) and src(n_.iter) == "aligned_blocks[sector_contracted]"]
    ctx.check(len(grp) == 1 and len(look) == 1, rid, f, f.node, "alignment key", "blocks of b are grouped, and blocks of a looked up, by the contracted sub-sector")

    def axes_of(loop, var):
        d = [a for a in loop.body if isinstance(a, ast.Assign) and src(a.targets[0]) == var]
        if len(d) == 1 and isinstance(d[0].value, ast.Call) and d[0].value.args and isinstance(d[0].value.args[0], ast.GeneratorExp):
            return src(d[0].value.args[0].generators[0].iter)
        return None

    bl = [n_ for n_ in walk_own(f.node) if isinstance(n_, ast.For) and src(n_.iter) == "b.blocks.items()"]
    al = [n_ for n_ in walk_own(f.node) if isinstance(n_, ast.For) and src(n_.iter) == "a.blocks.items()"]
    if len(bl) == 1 and len(al) == 1 and len(grp) == 1:
        ap = grp[0].args[0]
        rest = src(ap.elts[0]) if isinstance(ap, ast.Tuple) else None
        ctx.check(axes_of(bl[0], "sector_contracted") == "axes_b" and axes_of(bl[0], rest) == "right_axes", rid, f, bl[0], "b grouping",
                  "b's blocks are keyed by their CONTRACTED charges (axes_b) and carry their FREE charges (right_axes)")
        ctx.check(axes_of(al[0], "sector_contracted") == "axes_a" and axes_of(al[0], "sector_left") == "left_axes", rid, f, al[0], "a lookup",
                  "a's blocks are looked up by their CONTRACTED charges (axes_a) and contribute their FREE charges (left_axes)")
    else:
        ctx.check(False, rid, f, f.node, "loops", "one grouping loop over b's blocks and one lookup loop over a's blocks")
    ta = prog.func(f"{AC}:tensordot_abelian")
    la = [a for a in walk_own(ta.node) if isinstance(a, ast.Assign) and src(a.targets[0]) in ("left_axes", "right_axes")]
    ok = {src(a.targets[0]): src(a.value) for a in la} == {"left_axes": "without(range(ndim_a), axes_a)", "right_axes": "without(range(ndim_b), axes_b)"}
    ctx.check(ok, rid, ta, ta.node, "free axes", "free axes are the complement of the contracted axes within the same operand's rank")
    call = [c for c in walk_own(ta.node) if isinstance(c, ast.Call) and src(c.func) == "_tdot"]
    ctx.check(len(call) == 1 and [src(a) for a in call[0].args] == ["a", "b", "left_axes", "axes_a", "axes_b", "right_axes"], rid, ta, ta.node,
              "strategy call", "strategies are called as (a, b, left_axes, axes_a, axes_b, right_axes)")
    for fq in (f"{AC}:_tensordot_blockwise", f"{AC}:_tensordot_via_fused"):
        g = prog.func(fq)
        ctx.check(g.params() == ["a", "b", "left_axes", "axes_a", "axes_b", "right_axes"], rid, g, g.node, str(g.params()),
                  f"{g.name} takes (a, b, left_axes, axes_a, axes_b, right_axes)")
    ctx.minimum(rid, 20, "role-typed expressions across five functions")


def check_modes(prog, ctx):
    rid = "R02.2"
    f = prog.func(f"{AC}:tensordot_abelian")
    none = [n for n in walk_own(f.node) if isinstance(n, ast.If) and src(n.test) == "mode is None"]
    ctx.check(len(none) == 1 and src(none[0].body[0]) == "mode = _DEFAULT_TENSORDOT_MODE", rid, f, f.node, "None", "mode=None reads the process default")
    auto = [n for n in walk_own(f.node) if isinstance(n, ast.If) and src(n.test) == "mode == 'auto'"]
    ok = len(auto) == 1 and isinstance(auto[0].body[0], ast.If) and src(auto[0].body[0].test) == "len(axes_a) == 0" \
        and src(auto[0].body[0].body[0]) == "mode = 'blockwise'" and src(auto[0].body[0].orelse[0]) == "mode = 'fused'"
    ctx.check(ok, rid, f, f.node, "auto", "auto picks blockwise for outer products and fused otherwise")
    sw = [n for n in walk_own(f.node) if isinstance(n, ast.If) and src(n.test) == "mode == 'fused'"]
    ok = len(sw) == 1 and src(sw[0].body[0]) == "_tdot = _tensordot_via_fused" and isinstance(sw[0].orelse[0], ast.If) \
        and src(sw[0].orelse[0].test) == "mode == 'blockwise'" and src(sw[0].orelse[0].body[0]) == "_tdot = _tensordot_blockwise" \
        and isinstance(sw[0].orelse[0].orelse[0], ast.Raise)
    ctx.check(ok, rid, f, f.node, "switch", "fused / blockwise / anything else raises")
    order = none and auto and sw and none[0].lineno < auto[0].lineno < sw[0].lineno
    ctx.check(bool(order), rid, f, f.node, "order", "default resolution precedes auto resolution precedes dispatch")
    ctx.minimum(rid, 4, "mode switch")


def _norm_block(f):
    """the `if isinstance(axes, int): ... else: ...` block, alpha-normalised"""
    for n in walk_own(f.node):
        if isinstance(n, ast.If) and src(n.test) == "isinstance(axes, int)":
            return ast.dump(n)
    return None


def check_axes_normalisation(prog, ctx):
    rid = "R02.3"
    fa = prog.func(f"{AC}:tensordot_abelian")
    ff = prog.func("symmray.fermionic_core:tensordot_fermionic")
    da, df = _norm_block(fa), _norm_block(ff)
    ctx.need(da is not None and df is not None, "axes normalisation block not found")
    ctx.check(da == df, rid, ff, ff.node, "axes normalisation", "tensordot_abelian and tensordot_fermionic parse `axes` identically")
    blk = [n for n in walk_own(fa.node) if isinstance(n, ast.If) and src(n.test) == "isinstance(axes, int)"][0]
    body = {src(a.targets[0]): src(a.value) for a in blk.body if isinstance(a, ast.Assign)}
    ctx.check(body == {"axes_a": "tuple(range(ndim_a - axes, ndim_a))", "axes_b": "tuple(range(0, axes))"}, rid, fa, blk, str(body),
              "an integer contracts a's last n with b's first n axes")
    els = {src(a.targets[0]): src(a.value) for a in blk.orelse if isinstance(a, ast.Assign)}
    ok = els.get("axes_a") == "tuple((x % ndim_a for x in axes_a))" and els.get("axes_b") == "tuple((x % ndim_b for x in axes_b))"
    ctx.check(ok, rid, fa, blk, str(els), "explicit (possibly negative) axes are normalised modulo their own operand's rank")
    g = [n for n in blk.orelse if isinstance(n, ast.If) and "len(axes_a) == len(axes_b)" in src(n.test) and isinstance(n.body[0], ast.Raise)]
    ctx.check(len(g) == 1, rid, fa, blk, "length guard", "different numbers of axes raise")
    for f in (fa, ff):
        nd = {src(a.targets[0]): src(a.value) for a in walk_own(f.node) if isinstance(a, ast.Assign) and src(a.targets[0]) in ("ndim_a", "ndim_b")}
        ctx.check(nd == {"ndim_a": "a.ndim", "ndim_b": "b.ndim"}, rid, f, f.node, str(nd), f"{f.name}: ranks are read from the right operands")
    ctx.minimum(rid, 6, "normalisation")


def check_scalar_protocol(prog, ctx):
    rid = "R02.4"
    sites = [(f"{AC}:tensordot_abelian", "c"), ("symmray.fermionic_core:tensordot_fermionic", "c"),
             (f"{AC}:AbelianArray.__matmul__", "c"), ("symmray.fermionic_core:FermionicArray.__matmul__", "c")]
    for fq, var in sites:
        f = prog.func(fq)
        ifs = [n for n in walk_own(f.node) if isinstance(n, ast.If) and f"{var}.ndim == 0" in src(n.test)]
        ctx.need(len(ifs) == 1, f"{f.qualname}: scalar-result branch not found")
        t = src(ifs[0].test).replace("(", "").replace(")", "")
        has_flag = "preserve_array" in f.all_params()
        ctx.check(t == (f"{var}.ndim == 0 and not preserve_array" if has_flag else f"{var}.ndim == 0"), rid, f, ifs[0], t,
                  f"{f.qualname}: a 0-d result is unwrapped" + (" unless preserve_array" if has_flag else ""))
        tr = [s for s in ifs[0].body if isinstance(s, ast.Try)]
        ok = len(tr) == 1 and any(isinstance(s, ast.Return) and src(s.value) == f"{var}.blocks[()]" for s in tr[0].body) \
            and len(tr[0].handlers) == 1 and src(tr[0].handlers[0].type) == "KeyError" and src(tr[0].handlers[0].body[-1]) == "return 0.0"
        ctx.check(ok, rid, f, ifs[0], "protocol", f"{f.qualname}: returns blocks[()], or 0.0 when no blocks aligned")
    f = prog.func(f"{AC}:AbelianArray.einsum")
    tr = [s for s in walk_own(f.node) if isinstance(s, ast.Try) and any(isinstance(x, ast.Return) and src(x.value) == "new_blocks[()]" for x in s.body)]
    ok = len(tr) == 1 and src(tr[0].handlers[0].type) == "KeyError" and src(tr[0].handlers[0].body[-1]) == "return 0.0"
    ctx.check(ok, rid, f, f.node, "einsum scalar", "einsum: full trace returns the scalar block, or 0.0 when no diagonal block exists")
    pre = [n for n in walk_own(f.node) if isinstance(n, ast.If) and src(n.test) == "rhs or preserve_array"]
    ctx.check(len(pre) == 1, rid, f, f.node, "einsum wrap", "einsum: results with indices (or preserve_array) are wrapped in an array")
    ctx.minimum(rid, 10, "five sites")


def check_tables(prog, ctx):
    rid = "R02.5"
    f = prog.func(f"{AC}:AbelianArray.__matmul__")
    tabs = [n for n in ast.walk(f.node) if isinstance(n, ast.Subscript) and isinstance(n.value, ast.Dict)]
    ctx.need(len(tabs) == 1, "__matmul__: literal table not found")
    t = ast.literal_eval(tabs[0].value)
    ctx.check(set(t) == set(itertools.product((1, 2), repeat=2)), rid, f, tabs[0], str(sorted(t)), "matmul table covers all (1|2, 1|2) rank pairs")
    ctx.check(src(tabs[0].slice) in ("(self.ndim, other.ndim)", "self.ndim, other.ndim"), rid, f, tabs[0], src(tabs[0].slice), "the table is indexed by (left rank, right rank)")
    for (na, nb), (left, axa, axb, right) in sorted(t.items()):
        ok = sorted(left + axa) == list(range(na)) and sorted(axb + right) == list(range(nb)) and axa == (na - 1,) and axb == (0,)
        ctx.check(ok, rid, f, tabs[0], f"({na},{nb}) -> {(left, axa, axb, right)}",
                  f"row ({na},{nb}): free+contracted axes partition each operand; a's last axis meets b's first")
    g = prog.func(f"{AC}:_tensordot_via_fused")
    tabs = [n for n in ast.walk(g.node) if isinstance(n, ast.Subscript) and isinstance(n.value, ast.Dict)]
    ctx.need(len(tabs) == 2, "_tensordot_via_fused: the two literal tables were not found")
    for tb in tabs:
        t = ast.literal_eval(tb.value)
        key = src(tb.slice)
        ctx.check(set(t) == set(itertools.product((False, True), repeat=2)), rid, g, tb, str(sorted(t)), "fused-shape table covers all four cases")
        left_side = "left_axes" in key
        ctx.check(key.replace("(", "").replace(")", "") in ("boolleft_axes, boolaxes_a", "boolaxes_b, boolright_axes"), rid, g, tb, key,
                  "the table is indexed by (has first group, has second group) of that operand")
        for (h1, h2), (g1, g2) in sorted(t.items()):
            n_axes = int(h1) + int(h2)
            want1 = (0,) if h1 else ()
            want2 = ((1,) if h1 else (0,)) if h2 else ()
            ctx.check(g1 == want1 and g2 == want2, rid, g, tb, f"{(h1, h2)} -> {(g1, g2)}",
                      f"{'left' if left_side else 'right'} operand with groups present {(h1, h2)}: fused axes are numbered in group order")
    ctx.minimum(rid, 14, "4 matmul rows + 8 fused rows + coverage")


def run(prog, ctx):
    ctx.rule("R02.1", "operand-role consistency of every container/index pairing; result = A-left + B-right")
    ctx.rule("R02.2", "mode: None -> default, auto -> blockwise|fused, fused, blockwise, else raise")
    ctx.rule("R02.3", "abelian and fermionic entry points normalise `axes` identically")
    ctx.rule("R02.4", "scalar-result protocol agrees at all sites")
    ctx.rule("R02.5", "literal axes tables partition the axes, contract last-with-first, cover all keys")
    check_roles(prog, ctx)
    check_modes(prog, ctx)
    check_axes_normalisation(prog, ctx)
    check_scalar_protocol(prog, ctx)
    check_tables(prog, ctx)
