"""C06 — contraction commutes with fusing; all contraction strategies agree.

K1-K3  block-level semantics of tensordot in every mode by abstract evaluation (rules/sem_contract.py)
R06.2  drop_misaligned_sectors keeps exactly the shared sub-sectors (abstract evaluation on the key-set domain)
"""

from __future__ import annotations

import ast

from engine.loader import AnalysisError, src, walk_own

PID = "C06"
EXPLANATION = (
    "Abstract evaluation of the contraction strategies. The checker's evaluator interprets tensordot_abelian / tensordot_fermionic "
    "and everything they call (drop_misaligned_sectors, fuse with both strategies, the blockwise kernel, unfuse) from the current "
    "source on a bounded family of operand pairs whose block contents are shaped tokens: symmetries Z2 and U1 (Z2Z2, U1U1, Z4 in the "
    "thorough tier), ranks 1-4, several direction patterns, identity and non-identity charges, 0-3 contracted axes (also in "
    "reversed order), 0-2 extra free axes, operands whose present sectors DIFFER (full, every other sector, first sector missing), "
    "operands that carry a leg fused beforehand (free on a, free on b, contracted on both), abelian and fermionic with pending signs. "
    "A normalising token algebra makes the fused strategy transparent: fusing builds structured blocks {window -> source block}, "
    "the product of two structured blocks multiplies exactly the pieces whose windows along the contracted axis coincide and is "
    "marked `misaligned` when the two operands' fused layouts disagree, unfusing reads windows back. Every result block of every "
    "strategy thereby normalises to a set of pair products tensordot(a_block, b_block, paired axes), which is compared with the "
    "definition of a block-sparse contraction computed by the checker from the operands' sectors; fused and auto must further return "
    "the same rank, indices (fused-ness of every leg included), charge, sectors and block shapes as blockwise, and for fermionic "
    "operands the same effective sign on every pair product. Separately, drop_misaligned_sectors is evaluated on every pair of "
    "contracted sub-sector sets over two axes. Numerical equality of values is reduced to the backend's tensordot on blocks "
    "(assumed); the verdict covers exactly the enumerated cases."
)
ASSUMPTIONS = ["backend tensordot/transpose/reshape/concatenate/zeros behave as numpy's",
               "the evaluator implements the Python semantics of the sub-language the library uses (anything else fails closed)"]


def check_alignment_semantics(prog, ctx):
    """abstract evaluation of drop_misaligned_sectors on the key-set domain: for every pair of
    contracted sub-sector sets A (of a) and B (of b), both results keep exactly the sectors whose
    contracted sub-sector lies in the intersection, and the index tables shrink accordingly."""
    import itertools

    from engine.minieval import Evaluator, Obj, Raised, Unsupported
    from rules.c08_dispatch import Tok

    rid = "R06.2"
    dm = prog.func("symmray.abelian_core:drop_misaligned_sectors")
    arr = prog.cls("AbelianArray")
    ixc = prog.cls("BlockIndex")
    universe = [(0, 0), (0, 1), (1, 0), (1, 1)]  # two contracted axes -> four sub-sectors

    def mk(sectors, nd):
        cms = [dict() for _ in range(nd)]
        for s_ in sectors:
            for i, c in enumerate(s_):
                cms[i][c] = 1
        indices = tuple(Obj(ixc, {"_dual": False, "_chargemap": dict(sorted(cm.items())), "_subinfo": None, "_hashkey": None}) for cm in cms)
        return Obj(arr, {"_blocks": {s_: Tok(("blk", s_)) for s_ in sectors}, "_indices": indices, "_charge": 0, "_symmetry": None})

    bad = None
    ncase = 0
    subsets = [c for r in range(1, 5) for c in itertools.combinations(universe, r)]
    for A in subsets:
        for B in subsets:
            # a: (free, c1, c2), b: (c1, c2, free); contracted axes (1,2) of a with (0,1) of b
            a_sec = [(0,) + s_ for s_ in A] + [(1,) + A[0]]
            b_sec = [s_ + (0,) for s_ in B]
            for inplace in (False, True):
                a, b = mk(a_sec, 3), mk(b_sec, 3)
                ev = Evaluator(prog, stubs={"DEBUG": False}, max_steps=100000)
                ncase += 1
                try:
                    ra, rb = ev.call(dm, [a, b, (1, 2), (0, 1)], {"inplace": inplace})
                except Unsupported as e:
                    raise AnalysisError(f"drop_misaligned_sectors outside the evaluable sub-language: {e}")
                except (Raised, KeyError, RuntimeError) as e:
                    bad = bad or f"A={A} B={B}: {type(e).__name__}: {e}"
                    continue
                keep = set(A) & set(B)
                want_a = {s_ for s_ in a_sec if s_[1:] in keep}
                want_b = {s_ for s_ in b_sec if s_[:2] in keep}
                ga, gb = set(ra.fields["_blocks"]), set(rb.fields["_blocks"])
                if ga != want_a or gb != want_b:
                    bad = bad or (f"a sub-sectors {A}, b sub-sectors {B}: kept a={sorted(ga)} (want {sorted(want_a)}), "
                                  f"b={sorted(gb)} (want {sorted(want_b)})")
                    continue
                for arr_, want in ((ra, want_a), (rb, want_b)):
                    for i, ix in enumerate(arr_.fields["_indices"]):
                        have = set(ix.fields["_chargemap"])
                        need = {s_[i] for s_ in want}
                        if want and have != need:
                            bad = bad or f"A={A} B={B}: index {i} keeps charges {sorted(have)} but sectors use {sorted(need)}"
                if not inplace and (set(a.fields["_blocks"]) != set(a_sec) or set(b.fields["_blocks"]) != set(b_sec)):
                    bad = bad or "operands changed although inplace=False"
    ctx.check(bad is None, rid, dm, dm.node, "alignment semantics",
              f"both operands keep exactly the sectors whose contracted sub-sector is shared, and their charge tables shrink to the "
              f"charges still used ({ncase} sub-sector configurations evaluated abstractly)" + ("" if bad is None else f" — witness: {bad}"))


def run(prog, ctx):
    from rules.sem_contract import check_contraction

    ctx.rule("K1", "blockwise: result sectors, pair products, charge and indices are those of the definition of a block-sparse contraction")
    ctx.rule("K2", "fused / auto: the same pair products per result sector as the definition (so as blockwise), no product of misaligned "
                   "fused layouts; same rank, indices (a leg fused beforehand stays fused), charge, sectors and block shapes as blockwise")
    ctx.rule("K3", "fermionic operands: all strategies agree on the effective sign of every pair product")
    ctx.rule("R06.2", "drop_misaligned_sectors keeps, on both operands, exactly the sectors whose contracted sub-sector is shared, and "
                      "shrinks the charge tables accordingly")
    n = check_contraction(prog, ctx)
    ctx.guarded("R06.2", prog.func("symmray.abelian_core:drop_misaligned_sectors"), check_alignment_semantics, prog, ctx)
    ctx.extra_coverage = {"contraction_cases_evaluated": n}
    ctx.minimum("K2", 1, "fused strategy")
