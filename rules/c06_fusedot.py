"""C06 — contraction commutes with fusing; strategies agree (partial).

R06.1  the fused strategy unfuses exactly the result legs it fused itself
R06.2  operands are aligned before fusing; the empty early return matches the main path
R06.3  canonical sub-sector order shared by both operands (= R05.3)
"""

from __future__ import annotations

import ast

from engine.loader import AnalysisError, src, walk_own
from rules.c05_layout import check_canonical

PID = "C06"
EXPLANATION = (
    "Structural analysis of the fused contraction strategy (_tensordot_via_fused) over its AST. (1) A single free leg is passed "
    "to fuse() as a one-axis group, which the fuse plan leaves untouched, so a leg that was fused EARLIER keeps its sub-index "
    "information: the decision to unfuse a result leg must therefore be data-dependent on the arity of the group this function "
    "fused (len(left_axes) / len(right_axes)), read before those names are re-bound, and never on the mere presence of sub-index "
    "information; the right leg must be unfused before the left one (positions shift). (2) Both fuse calls act on the operands "
    "returned by drop_misaligned_sectors for the same axes, so both sides see the same sub-sectors; the early return for 'no "
    "aligned sectors' builds the same indices and charge expression as the blockwise path. (3) The canonical sorted sub-sector "
    "order and the accumulation in permutation order (shared with C05) are what make two sparse operands produce the same fused "
    "layout. Equality of values between strategies is not decided."
)
ASSUMPTIONS = ["fuse() leaves single-axis groups untouched (validated under C05/R05.1)"]


def _resolve(f, name, before_line=None):
    defs = [a for a in walk_own(f.node) if isinstance(a, ast.Assign) and len(a.targets) == 1 and src(a.targets[0]) == name]
    return defs


def check_unfuse(prog, ctx):
    rid = "R06.1"
    f = prog.func("symmray.abelian_core:_tensordot_via_fused")
    calls = [c for c in ast.walk(f.node) if isinstance(c, ast.Call) and (src(c.func).endswith(".unfuse") or src(c.func).endswith("unfuse_all"))]
    ctx.need(calls, "_tensordot_via_fused: no unfuse call found (strategy rewritten: re-derive R06.1)")
    # where are left_axes / right_axes re-bound (the scalar/vector/matrix table)?
    rebinds = {}
    for a in walk_own(f.node):
        if isinstance(a, ast.Assign) and isinstance(a.targets[0], ast.Tuple):
            for e in a.targets[0].elts:
                if src(e) in ("left_axes", "right_axes"):
                    rebinds[src(e)] = a.lineno
    # map each unfuse call to the conditions that dominate it
    positions = []
    for c in calls:
        tests = []
        for n in ast.walk(f.node):
            if isinstance(n, (ast.If,)) and any(x is c for b in n.body for x in ast.walk(b)):
                tests.append(n.test)
            if isinstance(n, (ast.For, ast.While)) and any(x is c for b in n.body for x in ast.walk(b)):
                tests.append(n)
        arity_dep = False
        which = None
        subinfo_only = False
        for t in tests:
            if isinstance(t, (ast.For, ast.While)):
                continue
            txt = src(t)
            names = [n.id for n in ast.walk(t) if isinstance(n, ast.Name)]
            for nm in names:
                for d in _resolve(f, nm):
                    v = src(d.value)
                    for side in ("left_axes", "right_axes"):
                        if f"len({side})" in v and d.lineno < rebinds.get(side, 10**9):
                            arity_dep = True
                            which = side
            for side in ("left_axes", "right_axes"):
                if f"len({side})" in txt and c.lineno < rebinds.get(side, 10**9):
                    arity_dep = True
                    which = side
            if "subinfo" in txt:
                subinfo_only = True
        ctx.check(arity_dep, rid, f, c, src(c),
                  "this unfuse is conditional on the arity of the group the function fused (len(left_axes) / len(right_axes), read "
                  "before those names are re-bound), not merely on sub-index information being present")
        positions.append((c.lineno, which, src(c.args[1]) if len(c.args) > 1 else None))
    positions.sort()
    if len(positions) == 2:
        ok = positions[0][1] == "right_axes" and positions[1][1] == "left_axes"
        ctx.check(ok, rid, f, f.node, f"order {positions}", "the right leg is unfused before the left one (so positions do not shift)")
        ok = positions[0][2] in ("cf.ndim - 1", "-1") and positions[1][2] == "0"
        ctx.check(ok, rid, f, f.node, f"axes {positions}", "the right group is the last result axis, the left group the first")
    else:
        ctx.notes.append(f"R06.1: {len(positions)} unfuse site(s); the left/right ordering obligations apply to the two-site form only")
    # fuse calls use one group per side, in (left, contracted) / (contracted, right) order
    fuses = [c for c in walk_own(f.node) if isinstance(c, ast.Call) and src(c.func) == "AbelianArray.fuse"]
    sig = sorted(tuple(src(a) for a in c.args) for c in fuses)
    ctx.check(sig == [("a", "left_axes", "axes_a"), ("b", "axes_b", "right_axes")], rid, f, f.node, str(sig),
              "a is fused into (left, contracted), b into (contracted, right)")
    ctx.check(all(any(k.arg == "expand_empty" and src(k.value) == "False" for k in c.keywords) for c in fuses), rid, f, f.node,
              "expand_empty", "empty groups are dropped, not expanded (vector / scalar operands)")
    ctx.minimum(rid, 3, "unfuse site(s), fuse signature")


def check_align(prog, ctx):
    rid = "R06.2"
    f = prog.func("symmray.abelian_core:_tensordot_via_fused")
    body = [s for s in f.node.body if not (isinstance(s, ast.Expr) and isinstance(s.value, ast.Constant))]
    first = body[0]
    ok = isinstance(first, ast.Assign) and src(first.targets[0]) == "(a, b)" and \
        src(first.value) == "drop_misaligned_sectors(a, b, axes_a, axes_b)"
    ctx.check(ok, rid, f, first, src(first), "the first statement re-binds a, b to their mutually aligned versions for the contracted axes")
    fuses = [c for c in walk_own(f.node) if isinstance(c, ast.Call) and src(c.func) == "AbelianArray.fuse"]
    ctx.check(all(c.lineno > first.lineno for c in fuses) and len(fuses) == 2, rid, f, f.node, "fuse after align",
              "both fuse calls come after the alignment and act on the aligned a, b")
    # early return
    early = [n for n in walk_own(f.node) if isinstance(n, ast.If) and "blocks" in src(n.test) and isinstance(n.body[0], ast.Return)]
    ctx.need(len(early) == 1, "_tensordot_via_fused: early return for no aligned sectors not found")
    r = early[0].body[0].value
    kws = {k.arg: src(k.value).replace(" ", "") for k in r.keywords}
    bw = prog.func("symmray.abelian_core:_tensordot_blockwise")
    rb = [n for n in walk_own(bw.node) if isinstance(n, ast.Return)][0].value
    kb = {k.arg: src(k.value).replace(" ", "") for k in rb.keywords}
    ctx.check(kws.get("charge") == kb.get("charge") == "a.symmetry.combine(a.charge,b.charge)", rid, f, early[0], str(kws.get("charge")),
              "empty result has charge combine(a.charge, b.charge), like the blockwise path")
    ctx.check(kws.get("indices") == "without(a.indices,axes_a)+without(b.indices,axes_b)" and kws.get("blocks") == "{}", rid, f, early[0],
              str(kws.get("indices")), "empty result keeps the free indices of a then b and has no blocks")
    newidx = [a for a in walk_own(bw.node) if isinstance(a, ast.Assign) and src(a.targets[0]) == "new_indices"]
    ctx.check(bool(newidx) and src(newidx[0].value).replace(" ", "") == "list(without(a.indices,axes_a)+without(b.indices,axes_b))", rid,
              bw, bw.node, "blockwise indices", "the blockwise path builds the same free indices")
    check_alignment_semantics(prog, ctx)
    ctx.minimum(rid, 6, "alignment, early return, abstract evaluation")


def check_alignment_semantics(prog, ctx):
    """abstract evaluation of drop_misaligned_sectors on the key-set domain: for every pair of
    contracted sub-sector sets A (of a) and B (of b), both results keep exactly the sectors whose
    contracted sub-sector lies in the intersection, and the index tables shrink accordingly."""
    import itertools

    from engine.minieval import Evaluator, Obj, Raised, Unsupported
    from rules.c08_dispatch import Tok

    rid = "R06.2"
    dm = prog.func("symmray.abelian_core:drop_misaligned_sectors")
    arr = prog.cls("AbelianArray")
    ixc = prog.cls("BlockIndex")
    universe = [(0, 0), (0, 1), (1, 0), (1, 1)]  # two contracted axes -> four sub-sectors

    def mk(sectors, nd):
        cms = [dict() for _ in range(nd)]
        for s_ in sectors:
            for i, c in enumerate(s_):
                cms[i][c] = 1
        indices = tuple(Obj(ixc, {"_dual": False, "_chargemap": dict(sorted(cm.items())), "_subinfo": None, "_hashkey": None}) for cm in cms)
        return Obj(arr, {"_blocks": {s_: Tok(("blk", s_)) for s_ in sectors}, "_indices": indices, "_charge": 0, "_symmetry": None})

    bad = None
    ncase = 0
    subsets = [c for r in range(1, 5) for c in itertools.combinations(universe, r)]
    for A in subsets:
        for B in subsets:
            # a: (free, c1, c2), b: (c1, c2, free); contracted axes (1,2) of a with (0,1) of b
            a_sec = [(0,) + s_ for s_ in A] + [(1,) + A[0]]
            b_sec = [s_ + (0,) for s_ in B]
            for inplace in (False, True):
                a, b = mk(a_sec, 3), mk(b_sec, 3)
                ev = Evaluator(prog, stubs={"DEBUG": False}, max_steps=100000)
                ncase += 1
                try:
                    ra, rb = ev.call(dm, [a, b, (1, 2), (0, 1)], {"inplace": inplace})
                except Unsupported as e:
                    raise AnalysisError(f"drop_misaligned_sectors outside the evaluable sub-language: {e}")
                except (Raised, KeyError, RuntimeError) as e:
                    bad = bad or f"A={A} B={B}: {type(e).__name__}: {e}"
                    continue
                keep = set(A) & set(B)
                want_a = {s_ for s_ in a_sec if s_[1:] in keep}
                want_b = {s_ for s_ in b_sec if s_[:2] in keep}
                ga, gb = set(ra.fields["_blocks"]), set(rb.fields["_blocks"])
                if ga != want_a or gb != want_b:
                    bad = bad or (f"a sub-sectors {A}, b sub-sectors {B}: kept a={sorted(ga)} (want {sorted(want_a)}), "
                                  f"b={sorted(gb)} (want {sorted(want_b)})")
                    continue
                for arr_, want in ((ra, want_a), (rb, want_b)):
                    for i, ix in enumerate(arr_.fields["_indices"]):
                        have = set(ix.fields["_chargemap"])
                        need = {s_[i] for s_ in want}
                        if want and have != need:
                            bad = bad or f"A={A} B={B}: index {i} keeps charges {sorted(have)} but sectors use {sorted(need)}"
                if not inplace and (set(a.fields["_blocks"]) != set(a_sec) or set(b.fields["_blocks"]) != set(b_sec)):
                    bad = bad or "operands changed although inplace=False"
    ctx.check(bad is None, rid, dm, dm.node, "alignment semantics",
              f"both operands keep exactly the sectors whose contracted sub-sector is shared, and their charge tables shrink to the "
              f"charges still used ({ncase} sub-sector configurations evaluated abstractly)" + ("" if bad is None else f" — witness: {bad}"))


def run(prog, ctx):
    ctx.rule("R06.1", "each unfuse of the fused strategy depends on the arity of the group it fused (read before re-binding), right before left")
    ctx.rule("R06.2", "drop_misaligned_sectors precedes both fuse calls; the empty early return matches the blockwise indices/charge")
    ctx.rule("R05.3", "canonical sorted sub-sector order; accumulation in perm order (shared with C05)")
    check_unfuse(prog, ctx)
    check_align(prog, ctx)
    check_canonical(prog, ctx)
