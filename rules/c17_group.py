"""C17 — charges form an abelian group with parity (partial: the group tables
and the algebra of sector enumeration).

R17.1  finite carriers: exhaustive abstract evaluation of the method bodies
R17.2  infinite carriers: affine normal form (symbolic linear forms)
R17.3  registry: get_symmetry chain <-> classes, four abstract methods each
R17.4  sector enumeration agrees with the validity predicate (algebraic)
"""

from __future__ import annotations

import ast
import itertools

from engine.loader import AnalysisError, ClassInfo, src, walk_own
from engine.minieval import Evaluator, Obj, Raised, Unsupported

PID = "C17"
EXPLANATION = (
    "Static abstract evaluation of the five Symmetry classes' method bodies (ASTs of valid/combine/"
    "sign/parity and the helpers they call) with the checker's own evaluator: exhaustively over the "
    "finite carrier read from `valid` (Z2, Z4, Z2Z2: all elements, pairs, triples), and over symbolic "
    "integer linear forms for U1/U1U1 (complete for all integers, which subsumes the box [-6,6]). "
    "The group laws, parity homomorphism and closure are obligations per (class, law). The registry "
    "chain in get_symmetry is compared with the class table. For sector enumeration the expression "
    "that solves for the last charge in gen_valid_sectors is evaluated symbolically/exhaustively and "
    "substituted into is_valid_sector's own expression for every dualness pattern up to 4 indices: "
    "every generated sector is valid and the last charge is the unique solution (none extra, none "
    "missing); distinctness of tuples follows from itertools.product over dict keys. Decides the "
    "algebraic/structural clauses only; symmray is never imported or executed."
)
ASSUMPTIONS = [
    "the evaluator's semantics of + - % ^ sum all isinstance tuple agree with CPython on ints and tuples",
    "two integer linear forms are equal for all integers iff their coefficients are equal",
    "chargemap keys are distinct (dict), so itertools.product yields distinct partial sectors",
]


# --------------------------------------------------------------------------- #
# symbolic integers: linear forms and their parities


class Lin:
    def __init__(self, co=None, k=0):
        self.co = {v: c for v, c in (co or {}).items() if c}
        self.k = k

    @staticmethod
    def lift(x):
        if isinstance(x, Lin):
            return x
        if isinstance(x, bool):
            x = int(x)
        if isinstance(x, int):
            return Lin({}, x)
        raise Unsupported(f"cannot lift {x!r} to a linear form")

    def __add__(self, o):
        o = Lin.lift(o)
        co = dict(self.co)
        for v, c in o.co.items():
            co[v] = co.get(v, 0) + c
        return Lin(co, self.k + o.k)

    __radd__ = __add__

    def __neg__(self):
        return Lin({v: -c for v, c in self.co.items()}, -self.k)

    def __sub__(self, o):
        return self + (-Lin.lift(o))

    def __rsub__(self, o):
        return Lin.lift(o) + (-self)

    def __mul__(self, o):
        if isinstance(o, int):
            return Lin({v: c * o for v, c in self.co.items()}, self.k * o)
        raise Unsupported("non-linear product")

    __rmul__ = __mul__

    def __mod__(self, m):
        if m == 2:
            return Par({v for v, c in self.co.items() if c % 2}, self.k % 2)
        if not self.co:
            return self.k % m
        raise Unsupported(f"symbolic value modulo {m}")

    def __eq__(self, o):
        if not isinstance(o, (Lin, int)):
            return False
        o = Lin.lift(o)
        return self.co == o.co and self.k == o.k

    def __hash__(self):
        return hash((tuple(sorted(self.co.items())), self.k))

    def _isinstance(self, t):
        return t is int or (isinstance(t, tuple) and int in t)

    def _truth(self):
        if not self.co:
            return bool(self.k)
        raise Unsupported("truth value of a symbolic integer")

    def __repr__(self):
        parts = [f"{c}*{v}" if c != 1 else v for v, c in sorted(self.co.items())]
        if self.k or not parts:
            parts.append(str(self.k))
        return "+".join(parts)


class Par:
    """parity (mod 2) of a linear form: set of variables + constant bit."""

    def __init__(self, vs, k):
        self.vs = frozenset(vs)
        self.k = k % 2

    def __xor__(self, o):
        if isinstance(o, int):
            o = Par((), o)
        if not isinstance(o, Par):
            raise Unsupported("xor of parity with non-parity")
        return Par(self.vs ^ o.vs, self.k ^ o.k)

    __rxor__ = __xor__

    def __add__(self, o):  # (p + q) used before % 2
        raise Unsupported("integer sum of parities (use ^ or take % 2 of the sum of charges)")

    def __mod__(self, m):
        if m == 2:
            return self
        raise Unsupported("parity modulo != 2")

    def __eq__(self, o):
        if isinstance(o, int):
            o = Par((), o)
        return isinstance(o, Par) and self.vs == o.vs and self.k == o.k

    def __hash__(self):
        return hash((self.vs, self.k))

    def _truth(self):
        if not self.vs:
            return bool(self.k)
        raise Unsupported("truth value of a symbolic parity")

    def is_bit(self):
        return True

    def __repr__(self):
        return "par(" + "^".join(sorted(self.vs) + [str(self.k)]) + ")"


# --------------------------------------------------------------------------- #


class SymModel:
    """Abstractly evaluated symmetry class."""

    def __init__(self, prog, ci):
        self.prog = prog
        self.ci = ci
        self.ev = Evaluator(prog)
        self.self_obj = Obj(ci, {})
        self.m = {}
        self._memo = {}
        for name in ("valid", "combine", "sign", "parity"):
            f = ci.methods.get(name)
            if f is None:
                raise AnalysisError(f"{ci.name} does not define {name}")
            self.m[name] = f

    def _call(self, name, *args, **kw):
        # memoised: the method bodies are pure functions of their arguments
        key = (name, args, tuple(sorted(kw.items())))
        try:
            return self._memo[key]
        except KeyError:
            pass
        except TypeError:
            key = None
        self.ev.steps = 0
        r = self.ev.call(self.m[name], list(args), kw, self_obj=self.self_obj)
        if key is not None:
            self._memo[key] = r
        return r

    def valid(self, *c):
        try:
            return bool(self._call("valid", *c))
        except (TypeError, IndexError, Unsupported):
            return False

    def combine(self, *c):
        return self._call("combine", *c)

    def sign(self, c, *a, **k):
        return self._call("sign", c, *a, **k)

    def parity(self, c):
        return self._call("parity", c)


INT_UNIVERSE = list(range(-8, 9))
PAIR_UNIVERSE = [(i, j) for i in range(-3, 5) for j in range(-3, 5)]


def carrier_of(model):
    ints = [c for c in INT_UNIVERSE if model.valid(c)]
    pairs = [c for c in PAIR_UNIVERSE if model.valid(c)]
    if ints and pairs:
        raise AnalysisError(f"{model.ci.name}.valid accepts both ints and pairs")
    if ints:
        if len(ints) == len(INT_UNIVERSE):
            return "int", None
        if ints[0] == INT_UNIVERSE[0] or ints[-1] == INT_UNIVERSE[-1]:
            raise AnalysisError(f"{model.ci.name}: carrier neither finite nor all of Z")
        return "finite", ints
    if pairs:
        if len(pairs) == len(PAIR_UNIVERSE):
            return "pair", None
        if any(-3 in p or 4 in p for p in pairs):
            raise AnalysisError(f"{model.ci.name}: pair carrier neither finite nor all of ZxZ")
        return "finite", pairs
    raise AnalysisError(f"{model.ci.name}.valid accepts nothing in the probe universe")


def sym_elems(kind, names):
    if kind == "int":
        return [Lin({n: 1}) for n in names]
    return [(Lin({n + "0": 1}), Lin({n + "1": 1})) for n in names]


def _eq(a, b):
    if isinstance(a, tuple) and isinstance(b, tuple):
        return len(a) == len(b) and all(_eq(x, y) for x, y in zip(a, b))
    r = a == b
    return bool(r)


def _is_valid_value(model, kind, carrier, v):
    if kind == "finite":
        return v in carrier and type(v) is type(carrier[0]) or (v in carrier and not isinstance(v, bool))
    if kind == "int":
        return isinstance(v, Lin) or (isinstance(v, int) and not isinstance(v, bool))
    return isinstance(v, tuple) and len(v) == 2 and all(isinstance(x, (Lin, int)) for x in v)


def _bit(v):
    if isinstance(v, Par):
        return True
    return isinstance(v, int) and v in (0, 1)


def _xor(a, b):
    return a ^ b


LAWS = [
    "closure(combine)", "closure(sign)", "associative", "commutative", "identity",
    "inverse", "sign(c,dual=False)==c", "sign involutive", "sign distributes over combine",
    "parity is 0/1", "parity(combine(a,b))==parity(a)^parity(b)", "parity(sign(c))==parity(c)",
    "n-ary combine == folded binary", "sign default is dual=True",
]


def check_class(ctx, model, rid):
    ci = model.ci
    kind, carrier = carrier_of(model)
    if kind == "finite":
        elems = carrier
        triples = list(itertools.product(elems, repeat=3))
    else:
        elems = None
        triples = [tuple(sym_elems(kind, ["a", "b", "c"]))]
    where = (ci.file, ci.name)
    cases = {law: 0 for law in LAWS}
    fails = {}

    def rec(law, ok, witness, method):
        cases[law] += 1
        if not ok and law not in fails:
            fails[law] = (witness, method)

    try:
        e = model.combine()
        for a, b, c in triples:
            ab = model.combine(a, b)
            rec("closure(combine)", _is_valid_value(model, kind, carrier, ab), f"combine({a},{b})={ab}", "combine")
            sa = model.sign(a, True)
            rec("closure(sign)", _is_valid_value(model, kind, carrier, sa), f"sign({a})={sa}", "sign")
            rec("associative", _eq(model.combine(ab, c), model.combine(a, model.combine(b, c))),
                f"a={a},b={b},c={c}", "combine")
            rec("commutative", _eq(ab, model.combine(b, a)), f"a={a},b={b}", "combine")
            rec("identity", _eq(model.combine(a, e), a) and _eq(model.combine(a), a) or
                (_eq(model.combine(a, e), a) and kind == "finite" and _eq(model.combine(a), a)),
                f"a={a}, combine()={e}, combine(a,e)={model.combine(a, e)}", "combine")
            rec("inverse", _eq(model.combine(a, sa), e), f"a={a}, sign(a)={sa}, combine={model.combine(a, sa)}", "sign")
            rec("sign(c,dual=False)==c", _eq(model.sign(a, False), a), f"a={a}", "sign")
            rec("sign involutive", _eq(model.sign(sa, True), a), f"a={a}, sign(sign(a))={model.sign(sa, True)}", "sign")
            rec("sign distributes over combine",
                _eq(model.sign(ab, True), model.combine(sa, model.sign(b, True))), f"a={a},b={b}", "sign")
            pa, pb = model.parity(a), model.parity(b)
            rec("parity is 0/1", _bit(pa), f"parity({a})={pa}", "parity")
            rec("parity(combine(a,b))==parity(a)^parity(b)", _eq(model.parity(ab), _xor(pa, pb)),
                f"a={a},b={b}", "parity")
            rec("parity(sign(c))==parity(c)", _eq(model.parity(sa), pa), f"a={a}", "parity")
            rec("n-ary combine == folded binary", _eq(model.combine(a, b, c), model.combine(ab, c)),
                f"a={a},b={b},c={c}", "combine")
            rec("sign default is dual=True", _eq(model.sign(a), sa), f"a={a}", "sign")
    except Raised as r:
        raise AnalysisError(f"{ci.name}: method raised during abstract evaluation: {r.what}")

    for law in LAWS:
        n = cases[law]
        desc = f"{ci.name} [{kind}{'' if carrier is None else ' ' + str(carrier)}] {law}: {n} case(s)"
        if law in fails:
            wit, meth = fails[law]
            f = model.m[meth]
            ctx.bad(rid, f, f.node, f"law={law}", f"{ci.name}: {law} fails, witness {wit}")
        else:
            ctx.ok(rid, f"{ci.file}:{ci.name}", desc)
    return kind, carrier


# --------------------------------------------------------------------------- #
# R17.3 registry


def check_registry(prog, ctx):
    rid = "R17.3"
    mod = prog.module("symmray.symmetries")
    base = prog.cls("Symmetry")
    subs = [c for c in prog.subclasses(base, strict=True)]
    ctx.need(len(subs) >= 5, f"expected >=5 Symmetry subclasses, found {len(subs)}")
    abstract = [
        name for name, f in base.methods.items() if "abstractmethod" in f.decorators
    ]
    ctx.need(set(abstract) >= {"valid", "combine", "sign", "parity"}, "abstract method set changed")
    for c in subs:
        for a in abstract:
            ctx.check(a in c.methods, rid, (c.file, c.name), c.node, f"missing {a}",
                      f"{c.name} defines abstract method {a}")
    gs = prog.func("symmray.symmetries:get_symmetry")
    chain = {}
    for n in walk_own(gs.node):
        if isinstance(n, ast.If) and isinstance(n.test, ast.Compare):
            t = n.test
            if (
                isinstance(t.left, ast.Name) and len(t.ops) == 1 and isinstance(t.ops[0], ast.Eq)
                and isinstance(t.comparators[0], ast.Constant)
                and n.body and isinstance(n.body[0], ast.Return)
                and isinstance(n.body[0].value, ast.Call)
            ):
                chain[t.comparators[0].value] = (src(n.body[0].value.func), n)
    ctx.need(chain, "get_symmetry: no `symmetry == \"X\"` chain found")
    for name, (ctor, node) in chain.items():
        tgt = prog.resolve_name(mod, ctor)
        ok = isinstance(tgt, ClassInfo) and tgt.name == name and base in prog.mro(tgt)
        ctx.check(ok, rid, gs, node, f"{name!r} -> {ctor}()",
                  f"get_symmetry({name!r}) constructs class {ctor} (must be the Symmetry subclass named {name})")
    for c in subs:
        ctx.check(c.name in chain, rid, gs, gs.node, f"class {c.name} unreachable",
                  f"Symmetry subclass {c.name} is reachable by name through get_symmetry")
    # Symmetry.__eq__ compares class names with strings: names are the contract
    eq = base.methods.get("__eq__")
    ctx.need(eq is not None, "Symmetry.__eq__ vanished")


# --------------------------------------------------------------------------- #
# R17.4 sector enumeration agrees with the validity predicate


def check_enumeration(prog, ctx, models):
    rid = "R17.4"
    gv = prog.func("symmray.abelian_core:AbelianArray.gen_valid_sectors")
    iv = prog.func("symmray.abelian_core:AbelianArray.is_valid_sector")
    # locate by shape: the assignment whose value is self.symmetry.sign(self.symmetry.combine(...), <last dual>)
    req = None
    partial = None
    for n in walk_own(gv.node):
        if isinstance(n, ast.Assign) and len(n.targets) == 1 and isinstance(n.targets[0], ast.Name):
            nm = n.targets[0].id
            if nm == "required_charge":
                req = n
            elif nm == "signed_partial_sector":
                partial = n
    ctx.need(req is not None and partial is not None,
             "gen_valid_sectors: the required_charge / signed_partial_sector assignments were not found "
             "(enumeration rewritten: re-derive R17.4)")
    # the yield must be `partial_sector + (required_charge,)` guarded by membership in last_charges
    ylds = [n for n in walk_own(gv.node) if isinstance(n, ast.Yield)]
    ctx.need(len(ylds) == 2, "gen_valid_sectors: expected exactly two yields (0-d and general)")
    guard_ok = False
    for n in walk_own(gv.node):
        if isinstance(n, ast.If) and isinstance(n.test, ast.Compare) and src(n.test) == "required_charge in last_charges":
            guard_ok = any(
                isinstance(s, ast.Expr) and isinstance(s.value, ast.Yield)
                and src(s.value.value) == "partial_sector + (required_charge,)" for s in n.body
            )
    ctx.check(guard_ok, rid, gv, gv.node, "yield guard",
              "general case yields partial_sector + (required_charge,) only when required_charge is a charge of the last index")
    # iteration is a product over the first indices' charges
    prod_ok = any(
        isinstance(n, ast.For) and src(n.iter) == "itertools.product(*first_charges)" for n in walk_own(gv.node)
    )
    ctx.check(prod_ok, rid, gv, gv.node, "product", "partial sectors enumerated by itertools.product over all first indices' charges (each tuple once)")

    # validity expression: combine(*(sign(c, ix.dual) ...)) == self.charge
    ret = [n for n in walk_own(iv.node) if isinstance(n, ast.Return)]
    ctx.need(len(ret) == 1 and src(ret[0].value) == "block_charge == self.charge",
             "is_valid_sector no longer returns `block_charge == self.charge`")

    def is_valid(model, sector, duals, charge):
        signed = [model.sign(c, d) for c, d in zip(sector, duals)]
        return _eq(model.combine(*signed), charge)

    # check the two expressions still have the shape we evaluate
    ctx.need(
        src(partial.value).replace(" ", "").replace("\n", "")
        == "self.symmetry.combine(*(self.symmetry.sign(c,notdual)forc,dualinzip(partial_sector,first_duals)))",
        "signed_partial_sector expression changed shape: " + src(partial.value),
    )
    ctx.need(
        src(req.value).replace(" ", "").replace("\n", "")
        == "self.symmetry.sign(self.symmetry.combine(self.charge,signed_partial_sector),last_dual)",
        "required_charge expression changed shape: " + src(req.value),
    )
    sigsrc = [n for n in walk_own(iv.node) if isinstance(n, ast.Assign)]
    ctx.need(
        any(src(a.value).replace(" ", "").replace("\n", "")
            == "(self.symmetry.sign(c,ix.dual)forc,ixinzip(sector,self._indices))" for a in sigsrc),
        "is_valid_sector signed_sector expression changed shape",
    )

    def required(model, partial_sector, first_duals, last_dual, charge):
        sp = model.combine(*[model.sign(c, not d) for c, d in zip(partial_sector, first_duals)])
        return model.sign(model.combine(charge, sp), last_dual)

    for model, kind, carrier in models:
        name = model.ci.name
        ncase = 0
        bad = None
        for nd in (1, 2, 3, 4):
            for duals in itertools.product((False, True), repeat=nd):
                if kind == "finite":
                    if nd == 4 and len(carrier) > 2:
                        firsts = itertools.product(carrier, repeat=nd - 1)
                    else:
                        firsts = itertools.product(carrier, repeat=nd - 1)
                    charges = carrier
                else:
                    firsts = [tuple(sym_elems(kind, [f"c{i}" for i in range(nd - 1)]))]
                    charges = sym_elems(kind, ["q"])
                for ps in firsts:
                    for q in charges:
                        r = required(model, ps, duals[:-1], duals[-1], q)
                        ncase += 1
                        # (i) soundness: the completed sector is valid
                        if not is_valid(model, tuple(ps) + (r,), duals, q):
                            bad = bad or f"ndim={nd} duals={duals} partial={ps} charge={q}: required={r} is not valid"
                        # (ii) uniqueness/completeness: any valid last charge equals r
                        if kind == "finite":
                            for x in carrier:
                                if is_valid(model, tuple(ps) + (x,), duals, q) and not _eq(x, r):
                                    bad = bad or f"ndim={nd} duals={duals} partial={ps} charge={q}: valid last charge {x} != required {r}"
                        else:
                            # linear: sign(x,last_dual) + S == q has the unique solution x = sign(q - S)
                            x = sym_elems(kind, ["x"])[0]
                            lhs = model.combine(*[model.sign(c, d) for c, d in zip(tuple(ps) + (x,), duals)])
                            # substitute x := r and compare with q is (i); uniqueness because the
                            # coefficient of x in lhs is +-1
                            coefs = _coef_of(lhs, "x")
                            if not all(c in (1, -1) for c in coefs):
                                bad = bad or f"coefficient of last charge in validity expression is {coefs}, not +-1"
        ctx.check(bad is None, rid, gv, req, f"{name}: required_charge",
                  f"{name}: solving for the last charge agrees with is_valid_sector ({ncase} cases, ndim<=4, all dual patterns)"
                  + ("" if bad is None else f"; witness: {bad}"))


def _coef_of(v, var):
    if isinstance(v, tuple):
        return [x.co.get(var + str(i), 0) for i, x in enumerate(v)]
    return [v.co.get(var, 0)]


# --------------------------------------------------------------------------- #


def run(prog, ctx):
    ctx.rule("R17.1", "finite carriers (read from `valid`): exhaustive evaluation of combine/sign/parity "
             "over all elements, pairs and triples: closure, associativity, commutativity, identity, inverse, "
             "parity homomorphism, sign(c, False) == c")
    ctx.rule("R17.2", "infinite carriers: the same laws on symbolic integer linear forms (complete over Z)")
    ctx.rule("R17.3", "get_symmetry's name chain and the Symmetry subclasses agree; every subclass defines the four abstract methods")
    ctx.rule("R17.4", "gen_valid_sectors' solved last charge satisfies is_valid_sector's predicate and is its unique solution, "
             "for every dualness pattern with <=4 indices")
    base = prog.cls("Symmetry")
    models = []
    for ci in prog.subclasses(base, strict=True):
        try:
            model = SymModel(prog, ci)
            kind, carrier = carrier_of(model)
            rid = "R17.1" if kind == "finite" else "R17.2"
            check_class(ctx, model, rid)
            models.append((model, kind, carrier))
        except Unsupported as e:
            raise AnalysisError(f"{ci.name}: method body outside the evaluable sub-language: {e}")
    ctx.minimum("R17.1", 3 * len(LAWS), "Z2, Z4, Z2Z2")
    ctx.minimum("R17.2", 2 * len(LAWS), "U1, U1U1")
    check_registry(prog, ctx)
    ctx.minimum("R17.3", 25, "5 classes x 4 methods + 5 names")
    try:
        check_enumeration(prog, ctx, models)
    except Unsupported as e:
        raise AnalysisError(f"enumeration check: {e}")
    ctx.minimum("R17.4", 7, "2 structural + 5 classes")
