"""C17 — charges form an abelian group with parity (partial: the group tables
and the algebra of sector enumeration).

R17.1  finite carriers: exhaustive abstract evaluation of the method bodies
R17.2  infinite carriers: affine normal form (symbolic linear forms)
R17.3  registry: get_symmetry chain <-> classes, four abstract methods each
R17.4  sector enumeration agrees with the validity predicate (algebraic)
"""

from __future__ import annotations

import ast
import itertools

from engine.loader import AnalysisError, ClassInfo, src, walk_own
from engine.minieval import Evaluator, Obj, Raised, Unsupported

PID = "C17"
EXPLANATION = (
    "Static abstract evaluation of the five Symmetry classes' method bodies (ASTs of valid/combine/"
    "sign/parity and the helpers they call) with the checker's own evaluator: exhaustively over the "
    "finite carrier read from `valid` (Z2, Z4, Z2Z2: all elements, pairs, triples), and over symbolic "
    "integer linear forms for U1/U1U1 (complete for all integers, which subsumes the box [-6,6]). "
    "The group laws, parity homomorphism and closure are obligations per (class, law). The registry "
    "chain in get_symmetry is compared with the class table. For sector enumeration the expression "
    "that solves for the last charge in gen_valid_sectors is evaluated symbolically/exhaustively and "
    "substituted into is_valid_sector's own expression for every dualness pattern up to 4 indices: "
    "every generated sector is valid and the last charge is the unique solution (none extra, none "
    "missing); distinctness of tuples follows from itertools.product over dict keys. Decides the "
    "algebraic/structural clauses only; symmray is never imported or executed."
)
ASSUMPTIONS = [
    "the evaluator's semantics of + - % ^ sum all isinstance tuple agree with CPython on ints and tuples",
    "two integer linear forms are equal for all integers iff their coefficients are equal",
    "chargemap keys are distinct (dict), so itertools.product yields distinct partial sectors",
]


# --------------------------------------------------------------------------- #
# symbolic integers: linear forms and their parities


class Lin:
    def __init__(self, co=None, k=0):
        self.co = {v: c for v, c in (co or {}).items() if c}
        self.k = k

    @staticmethod
    def lift(x):
        if isinstance(x, Lin):
            return x
        if isinstance(x, bool):
            x = int(x)
        if isinstance(x, int):
            return Lin({}, x)
        raise Unsupported(f"cannot lift {x!r} to a linear form")

    def __add__(self, o):
        o = Lin.lift(o)
        co = dict(self.co)
        for v, c in o.co.items():
            co[v] = co.get(v, 0) + c
        return Lin(co, self.k + o.k)

    __radd__ = __add__

    def __neg__(self):
        return Lin({v: -c for v, c in self.co.items()}, -self.k)

    def __sub__(self, o):
        return self + (-Lin.lift(o))

    def __rsub__(self, o):
        return Lin.lift(o) + (-self)

    def __mul__(self, o):
        if isinstance(o, int):
            return Lin({v: c * o for v, c in self.co.items()}, self.k * o)
        raise Unsupported("non-linear product")

    __rmul__ = __mul__

    def __mod__(self, m):
        if not self.co:
            return self.k % m
        if isinstance(m, int) and m > 0:
            return Par(dict(self.co), self.k, m)
        raise Unsupported(f"symbolic value modulo {m}")

    def __xor__(self, o):
        o = Lin.lift(o)
        if not self.co and not o.co:
            return self.k ^ o.k
        raise Unsupported("xor of symbolic integers")

    __rxor__ = __xor__

    def __eq__(self, o):
        if not isinstance(o, (Lin, int)):
            return False
        o = Lin.lift(o)
        return self.co == o.co and self.k == o.k

    def __hash__(self):
        return hash((tuple(sorted(self.co.items())), self.k))

    def _isinstance(self, t):
        return t is int or (isinstance(t, tuple) and int in t)

    def _truth(self):
        if not self.co:
            return bool(self.k)
        raise Unsupported("truth value of a symbolic integer")

    def __repr__(self):
        parts = [f"{c}*{v}" if c != 1 else v for v, c in sorted(self.co.items())]
        if self.k or not parts:
            parts.append(str(self.k))
        return "+".join(parts)


class Par:
    """residue class (mod m) of a linear form: coefficients mod m + constant."""

    def __init__(self, vs, k, m=2):
        self.m = m
        if isinstance(vs, dict):
            self.co = {v: c % m for v, c in vs.items() if c % m}
        else:
            self.co = {v: 1 for v in vs}
        self.vs = frozenset(self.co)
        self.k = k % m

    def __xor__(self, o):
        if isinstance(o, Lin) and not o.co:
            o = o.k
        if isinstance(o, int):
            o = Par((), o, self.m)
        if not isinstance(o, Par) or self.m != 2 or o.m != 2:
            raise Unsupported("xor of non-parity values")
        co = dict(self.co)
        for v in o.co:
            co[v] = co.get(v, 0) + 1
        return Par(co, self.k ^ o.k, 2)

    __rxor__ = __xor__

    def __add__(self, o):
        raise Unsupported("integer sum of residues (use ^ or take % 2 of the sum of charges)")

    def __mod__(self, m):
        if m == self.m:
            return self
        raise Unsupported("residue taken modulo a different modulus")

    def __eq__(self, o):
        if isinstance(o, Lin) and not o.co:
            o = o.k
        if isinstance(o, int):
            o = Par((), o, self.m)
        return isinstance(o, Par) and self.m == o.m and self.co == o.co and self.k == o.k

    def __hash__(self):
        return hash((self.m, tuple(sorted(self.co.items())), self.k))

    def _truth(self):
        if not self.co:
            return bool(self.k)
        raise Unsupported("truth value of a symbolic residue")

    def __repr__(self):
        return f"mod{self.m}(" + "+".join([f"{c}{v}" for v, c in sorted(self.co.items())] + [str(self.k)]) + ")"


# --------------------------------------------------------------------------- #


class SymModel:
    """Abstractly evaluated symmetry class."""

    def __init__(self, prog, ci):
        self.prog = prog
        self.ci = ci
        self.ev = Evaluator(prog)
        self.self_obj = Obj(ci, {})
        self.m = {}
        self._memo = {}
        for name in ("valid", "combine", "sign", "parity"):
            f = ci.methods.get(name)
            if f is None:
                raise AnalysisError(f"{ci.name} does not define {name}")
            self.m[name] = f

    def _call(self, name, *args, **kw):
        # memoised: the method bodies are pure functions of their arguments
        key = (name, args, tuple(sorted(kw.items())))
        try:
            return self._memo[key]
        except KeyError:
            pass
        except TypeError:
            key = None
        self.ev.steps = 0
        r = self.ev.call(self.m[name], list(args), kw, self_obj=self.self_obj)
        if key is not None:
            self._memo[key] = r
        return r

    def valid(self, *c):
        try:
            return bool(self._call("valid", *c))
        except (TypeError, IndexError, Unsupported):
            return False

    def combine(self, *c):
        return self._call("combine", *c)

    def sign(self, c, *a, **k):
        return self._call("sign", c, *a, **k)

    def parity(self, c):
        return self._call("parity", c)


INT_UNIVERSE = list(range(-8, 9))
PAIR_UNIVERSE = [(i, j) for i in range(-3, 5) for j in range(-3, 5)]


def carrier_of(model):
    ints = [c for c in INT_UNIVERSE if model.valid(c)]
    pairs = [c for c in PAIR_UNIVERSE if model.valid(c)]
    if ints and pairs:
        raise AnalysisError(f"{model.ci.name}.valid accepts both ints and pairs")
    if ints:
        if len(ints) == len(INT_UNIVERSE):
            return "int", None
        if ints[0] == INT_UNIVERSE[0] or ints[-1] == INT_UNIVERSE[-1]:
            raise AnalysisError(f"{model.ci.name}: carrier neither finite nor all of Z")
        return "finite", ints
    if pairs:
        if len(pairs) == len(PAIR_UNIVERSE):
            return "pair", None
        if any(-3 in p or 4 in p for p in pairs):
            raise AnalysisError(f"{model.ci.name}: pair carrier neither finite nor all of ZxZ")
        return "finite", pairs
    raise AnalysisError(f"{model.ci.name}.valid accepts nothing in the probe universe")


def sym_elems(kind, names):
    if kind == "int":
        return [Lin({n: 1}) for n in names]
    return [(Lin({n + "0": 1}), Lin({n + "1": 1})) for n in names]


def _eq(a, b):
    if isinstance(a, tuple) and isinstance(b, tuple):
        return len(a) == len(b) and all(_eq(x, y) for x, y in zip(a, b))
    r = a == b
    return bool(r)


def _is_valid_value(model, kind, carrier, v):
    if kind == "finite":
        return v in carrier and type(v) is type(carrier[0]) or (v in carrier and not isinstance(v, bool))
    if kind == "int":
        return isinstance(v, Lin) or (isinstance(v, int) and not isinstance(v, bool))
    return isinstance(v, tuple) and len(v) == 2 and all(isinstance(x, (Lin, int)) for x in v)


def _bit(v):
    if isinstance(v, Par):
        return v.m == 2
    if isinstance(v, Lin):
        return not v.co and v.k in (0, 1)
    return isinstance(v, int) and v in (0, 1)


def _xor(a, b):
    return a ^ b


LAWS = [
    "closure(combine)", "closure(sign)", "associative", "commutative", "identity",
    "inverse", "sign(c,dual=False)==c", "sign involutive", "sign distributes over combine",
    "parity is 0/1", "parity(combine(a,b))==parity(a)^parity(b)", "parity(sign(c))==parity(c)",
    "n-ary combine == folded binary", "sign default is dual=True",
]


def check_class(ctx, model, rid):
    ci = model.ci
    kind, carrier = carrier_of(model)
    if kind == "finite":
        elems = carrier
        triples = list(itertools.product(elems, repeat=3))
    else:
        elems = None
        triples = [tuple(sym_elems(kind, ["a", "b", "c"]))]
    where = (ci.file, ci.name)
    cases = {law: 0 for law in LAWS}
    fails = {}

    def rec(law, ok, witness, method):
        cases[law] += 1
        if not ok and law not in fails:
            fails[law] = (witness, method)

    try:
        e = model.combine()
        for a, b, c in triples:
            ab = model.combine(a, b)
            rec("closure(combine)", _is_valid_value(model, kind, carrier, ab), f"combine({a},{b})={ab}", "combine")
            sa = model.sign(a, True)
            rec("closure(sign)", _is_valid_value(model, kind, carrier, sa), f"sign({a})={sa}", "sign")
            rec("associative", _eq(model.combine(ab, c), model.combine(a, model.combine(b, c))),
                f"a={a},b={b},c={c}", "combine")
            rec("commutative", _eq(ab, model.combine(b, a)), f"a={a},b={b}", "combine")
            rec("identity", _eq(model.combine(a, e), a) and _eq(model.combine(a), a) or
                (_eq(model.combine(a, e), a) and kind == "finite" and _eq(model.combine(a), a)),
                f"a={a}, combine()={e}, combine(a,e)={model.combine(a, e)}", "combine")
            rec("inverse", _eq(model.combine(a, sa), e), f"a={a}, sign(a)={sa}, combine={model.combine(a, sa)}", "sign")
            rec("sign(c,dual=False)==c", _eq(model.sign(a, False), a), f"a={a}", "sign")
            rec("sign involutive", _eq(model.sign(sa, True), a), f"a={a}, sign(sign(a))={model.sign(sa, True)}", "sign")
            rec("sign distributes over combine",
                _eq(model.sign(ab, True), model.combine(sa, model.sign(b, True))), f"a={a},b={b}", "sign")
            pa, pb = model.parity(a), model.parity(b)
            rec("parity is 0/1", _bit(pa), f"parity({a})={pa}", "parity")
            if _bit(pa) and _bit(pb):
                rec("parity(combine(a,b))==parity(a)^parity(b)", _eq(model.parity(ab), _xor(pa, pb)),
                    f"a={a},b={b}", "parity")
            else:
                rec("parity(combine(a,b))==parity(a)^parity(b)", False, f"parity({a})={pa} is not a bit", "parity")
            rec("parity(sign(c))==parity(c)", _eq(model.parity(sa), pa), f"a={a}", "parity")
            rec("n-ary combine == folded binary", _eq(model.combine(a, b, c), model.combine(ab, c)),
                f"a={a},b={b},c={c}", "combine")
            rec("sign default is dual=True", _eq(model.sign(a), sa), f"a={a}", "sign")
    except Raised as r:
        raise AnalysisError(f"{ci.name}: method raised during abstract evaluation: {r.what}")

    for law in LAWS:
        n = cases[law]
        desc = f"{ci.name} [{kind}{'' if carrier is None else ' ' + str(carrier)}] {law}: {n} case(s)"
        if law in fails:
            wit, meth = fails[law]
            f = model.m[meth]
            ctx.bad(rid, f, f.node, f"law={law}", f"{ci.name}: {law} fails, witness {wit}")
        else:
            ctx.ok(rid, f"{ci.file}:{ci.name}", desc)
    return kind, carrier


# --------------------------------------------------------------------------- #
# R17.3 registry


def check_registry(prog, ctx):
    rid = "R17.3"
    mod = prog.module("symmray.symmetries")
    base = prog.cls("Symmetry")
    subs = [c for c in prog.subclasses(base, strict=True)]
    ctx.need(len(subs) >= 5, f"expected >=5 Symmetry subclasses, found {len(subs)}")
    abstract = [
        name for name, f in base.methods.items() if "abstractmethod" in f.decorators
    ]
    ctx.need(set(abstract) >= {"valid", "combine", "sign", "parity"}, "abstract method set changed")
    for c in subs:
        for a in abstract:
            ctx.check(a in c.methods, rid, (c.file, c.name), c.node, f"missing {a}",
                      f"{c.name} defines abstract method {a}")
    gs = prog.func("symmray.symmetries:get_symmetry")
    # the registry is evaluated, not pattern-matched: get_symmetry(<class name>) must build an instance of that class
    ev = Evaluator(prog)
    for c in subs:
        try:
            ev.steps = 0
            got = ev.call(gs, [c.name])
            ok = isinstance(got, Obj) and got.cls is c
            why = f"returned {getattr(getattr(got, 'cls', None), 'name', got)}"
        except Raised as e:
            ok, why = False, f"raised {e.what[:60]}"
        except Unsupported as e:
            raise AnalysisError(f"get_symmetry outside the evaluable sub-language: {e}")
        ctx.check(ok, rid, gs, gs.node, f"{c.name!r} -> {why}", f"get_symmetry({c.name!r}) constructs the Symmetry subclass named {c.name}")
    try:
        ev.steps = 0
        ok = True
        for c in subs:
            ev.steps = 0
            got = ev.call(gs, [Obj(c, {})])
            ok = ok and isinstance(got, Obj) and got.cls is c
    except (Raised, Unsupported, TypeError):
        ok = False
    ctx.check(ok, rid, gs, gs.node, "instance passthrough", "a Symmetry instance resolves to an instance of its own class")
    try:
        ev.steps = 0
        ev.call(gs, ["NoSuchSymmetry"])
        ok = False
    except Raised:
        ok = True
    except Unsupported as e:
        raise AnalysisError(f"get_symmetry outside the evaluable sub-language: {e}")
    ctx.check(ok, rid, gs, gs.node, "unknown name", "an unknown symmetry name raises")
    # Symmetry.__eq__ compares class names with strings: names are the contract
    eq = base.methods.get("__eq__")
    ctx.need(eq is not None, "Symmetry.__eq__ vanished")


# --------------------------------------------------------------------------- #
# R17.4 sector enumeration agrees with the validity predicate


class AnyKeys(dict):
    """charge table of the last index in the symbolic case: every charge is available."""

    def keys(self):
        return self

    def __contains__(self, k):
        return True


def _array_obj(prog, model, duals, chargemaps, charge):
    arr_cls = prog.cls("AbelianArray")
    ix_cls = prog.cls("BlockIndex")
    indices = tuple(Obj(ix_cls, {"_dual": d, "_chargemap": cm, "_subinfo": None, "_hashkey": None})
                    for d, cm in zip(duals, chargemaps))
    return Obj(arr_cls, {"_indices": indices, "_charge": charge, "_symmetry": model.self_obj, "_blocks": {}})


def check_enumeration(prog, ctx, models):
    """Abstractly evaluate gen_valid_sectors and is_valid_sector (their real ASTs) on
    index tables over the symmetry's carrier and compare: none extra, none missing, none repeated."""
    rid = "R17.4"
    gv = prog.func("symmray.abelian_core:AbelianArray.gen_valid_sectors")
    iv = prog.func("symmray.abelian_core:AbelianArray.is_valid_sector")

    def enumerate_(ev, arr):
        ev.steps = 0
        ev.yields = []
        ev.call(gv, [], self_obj=arr)
        return list(ev.yields)

    def valid(ev, arr, sector):
        ev.steps = 0
        return bool(ev.call(iv, [tuple(sector)], self_obj=arr))

    for model, kind, carrier in models:
        name = model.ci.name
        ev = Evaluator(prog, max_steps=400000)
        ncase = 0
        bad = None
        if kind == "finite":
            tables = [list(carrier)]
            if len(carrier) > 1:
                tables.append(list(carrier[:1]))
                tables.append(list(carrier[1:]))
            for nd in (0, 1, 2, 3):
                table_choices = itertools.product(tables, repeat=nd) if nd <= 2 else [tuple([tables[0]] * nd)]
                for tabs in table_choices:
                    for duals in itertools.product((False, True), repeat=nd):
                        for q in carrier:
                            arr = _array_obj(prog, model, duals, [{c: 1 for c in t} for t in tabs], q)
                            got = enumerate_(ev, arr)
                            want = [sec for sec in itertools.product(*tabs) if valid(ev, arr, sec)]
                            ncase += 1
                            if len(got) != len(set(got)):
                                bad = bad or f"ndim={nd} duals={duals} charge={q}: repeated sectors {got}"
                            if set(got) != set(want):
                                bad = bad or (f"ndim={nd} duals={duals} charge={q} tables={tabs}: generated "
                                              f"{sorted(set(got) - set(want))} extra, {sorted(set(want) - set(got))} missing")
        else:
            for nd in (0, 1, 2, 3, 4):
                for duals in itertools.product((False, True), repeat=nd):
                    firsts = sym_elems(kind, [f"c{i}" for i in range(max(nd - 1, 0))])
                    q = sym_elems(kind, ["q"])[0]
                    cms = [{c: 1} for c in firsts] + ([AnyKeys()] if nd else [])
                    ncase += 1
                    if nd == 0:
                        # a 0-d array has the empty sector iff its charge is the identity: decided on concrete charges (the test may
                        # be written as a truth test, which a symbolic charge cannot answer)
                        ident = model.combine()
                        arr0 = _array_obj(prog, model, (), [], ident)
                        got0 = enumerate_(ev, arr0)
                        if got0 != [()] or not valid(ev, arr0, ()):
                            bad = bad or f"0-d array with identity charge {ident}: generated {got0}"
                        others = [1, -2] if not isinstance(ident, tuple) else [(1, 0), (0, -1), (2, 3)]
                        for qc in others:
                            gotc = enumerate_(ev, _array_obj(prog, model, (), [], qc))
                            if gotc:
                                bad = bad or f"0-d array with non-identity charge {qc}: generated {gotc}"
                        continue
                    arr = _array_obj(prog, model, duals, cms, q)
                    got = enumerate_(ev, arr)
                    if len(got) != 1:
                        bad = bad or f"ndim={nd} duals={duals}: {len(got)} sectors generated for one partial sector"
                        continue
                    if not valid(ev, arr, got[0]):
                        bad = bad or f"ndim={nd} duals={duals}: generated sector {got[0]} does not satisfy is_valid_sector"
                    if tuple(got[0][:-1]) != tuple(firsts):
                        bad = bad or f"ndim={nd}: generated sector does not extend the partial sector"
        ctx.check(bad is None, rid, gv, gv.node, f"{name}: enumeration",
                  f"{name}: gen_valid_sectors == filter(is_valid_sector) on {ncase} index structures "
                  f"({'all tables over the carrier, ndim<=3' if kind == 'finite' else 'symbolic charges, ndim<=4; uniqueness by the involution law'})"
                  + ("" if bad is None else f"; witness: {bad}"))


# --------------------------------------------------------------------------- #


def run(prog, ctx):
    ctx.rule("R17.1", "finite carriers (read from `valid`): exhaustive evaluation of combine/sign/parity "
             "over all elements, pairs and triples: closure, associativity, commutativity, identity, inverse, "
             "parity homomorphism, sign(c, False) == c")
    ctx.rule("R17.2", "infinite carriers: the same laws on symbolic integer linear forms (complete over Z)")
    ctx.rule("R17.3", "get_symmetry's name chain and the Symmetry subclasses agree; every subclass defines the four abstract methods")
    ctx.rule("R17.4", "gen_valid_sectors' solved last charge satisfies is_valid_sector's predicate and is its unique solution, "
             "for every dualness pattern with <=4 indices")
    base = prog.cls("Symmetry")
    models = []
    for ci in prog.subclasses(base, strict=True):
        try:
            model = SymModel(prog, ci)
            kind, carrier = carrier_of(model)
            rid = "R17.1" if kind == "finite" else "R17.2"
            check_class(ctx, model, rid)
            models.append((model, kind, carrier))
        except Unsupported as e:
            raise AnalysisError(f"{ci.name}: method body outside the evaluable sub-language: {e}")
    ctx.minimum("R17.1", 3 * len(LAWS), "Z2, Z4, Z2Z2")
    ctx.minimum("R17.2", 2 * len(LAWS), "U1, U1U1")
    check_registry(prog, ctx)
    ctx.minimum("R17.3", 25, "5 classes x 4 methods + 5 names")
    try:
        check_enumeration(prog, ctx, models)
    except Unsupported as e:
        raise AnalysisError(f"enumeration check: {e}")
    ctx.minimum("R17.4", 5, "5 classes")
