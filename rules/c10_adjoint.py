"""C10 — conjugation gives the bra (partial: conj <-> dagger agreement).

R10.1  FermionicArray.conj and .dagger agree on the five ingredients of the adjoint law
R10.2  AbelianArray.dagger == conj then transpose; H / T properties use the defaults
"""

from __future__ import annotations

import ast

from engine.astutil import conjuncts, parse_cond
from engine.loader import AnalysisError, src, walk_own

PID = "C10"
EXPLANATION = (
    "Two analyses. (B, rules R10.2-R10.4) Abstract evaluation on fermionic arrays of shaped tokens (Z2, U1, + Z2Z2, U1U1, Z4 thorough; "
    "ranks 1-4; direction patterns; even and odd parity with an odd-position label; pending signs; full and sparse): conj applied twice "
    "and dagger applied twice return the original (synchronised blocks, indices, charge, labels); dagger(phase_dual=p) equals "
    "conj(phase_dual=p) followed by the fermionic transpose to reversed axes for both p; the contraction of x.conj(phase_dual=p) with x "
    "over all axes, in either operand order and in every contraction strategy, normalises to the sum over all stored blocks of "
    "tensordot(conj(block), block) with sign +1 - the squared norm - whenever every index is ket-like or p is True. (A, rule R10.1) "
    "Sibling agreement (Engler-style cross-check) of the two implementations of fermionic conjugation. For "
    "FermionicArray.conj and FermionicArray.dagger the checker extracts, by def-use over their ASTs, (a) the new total charge, "
    "(b) the new odd-position labels, (c) the condition under which the odd global sign is taken, (d) which legs the dual-leg "
    "option selects — normalised to the operand's ORIGINAL direction by counting the `.conj()` applied to the index tuple the "
    "predicate ranges over and the negation in the predicate — and (e) that exactly one of {virtual reversal sign, physical "
    "reversal of axes/sectors/blocks} is applied. The adjoint law dagger == conj followed by the fermionic reversal needs all "
    "five to agree; complementary leg sets in (d) differ by the total parity sign, i.e. minus the norm for every odd-parity "
    "array. The norm identities themselves (numbers) are not decided."
)
ASSUMPTIONS = ["BlockIndex.conj flips the direction flag (checked under C01/O2)"]


def _leg_selection(ctx, f):
    """returns (selects_originally_dual: bool, node) for the dual-leg option of f, or raises."""
    # the comprehension `tuple(ax for ax, ix in enumerate(V) if TEST)`
    cands = []
    for n in ast.walk(f.node):
        if isinstance(n, ast.GeneratorExp) and len(n.generators) == 1:
            g = n.generators[0]
            if isinstance(g.iter, ast.Call) and src(g.iter.func) == "enumerate" and len(g.ifs) == 1 \
                    and "dual" in src(g.ifs[0]):
                cands.append((n, g))
    ctx.need(len(cands) == 1, f"{f.qualname}: expected one dual-leg selection comprehension, found {len(cands)}")
    n, g = cands[0]
    ixvar = src(g.target.elts[1]) if isinstance(g.target, ast.Tuple) else None
    test = g.ifs[0]
    neg = 0
    t = test
    while isinstance(t, ast.UnaryOp) and isinstance(t.op, ast.Not):
        neg += 1
        t = t.operand
    ctx.need(src(t) == f"{ixvar}.dual", f"{f.qualname}: leg predicate is not a test of {ixvar}.dual: {src(test)}")
    # provenance of the iterated index tuple: count .conj() per element
    v = g.iter.args[0]
    conj = 0
    seen = 0
    while True:
        seen += 1
        ctx.need(seen < 6, f"{f.qualname}: provenance of the index tuple too deep")
        if isinstance(v, ast.Name):
            defs = [a for a in walk_own(f.node) if isinstance(a, ast.Assign) and len(a.targets) == 1
                    and src(a.targets[0]) == v.id]
            ctx.need(len(defs) == 1, f"{f.qualname}: {v.id} has {len(defs)} definitions")
            v = defs[0].value
            continue
        if isinstance(v, ast.Call) and src(v.func) == "tuple" and isinstance(v.args[0], ast.GeneratorExp):
            ge = v.args[0]
            elt = ge.elt
            while isinstance(elt, ast.Call) and isinstance(elt.func, ast.Attribute) and elt.func.attr == "conj":
                conj += 1
                elt = elt.func.value
            ctx.need(isinstance(elt, ast.Name), f"{f.qualname}: index tuple element {src(ge.elt)} not understood")
            it = ge.generators[0].iter
            if isinstance(it, ast.Call) and src(it.func) == "reversed":
                it = it.args[0]
            v = it
            continue
        if isinstance(v, ast.Attribute) and v.attr in ("indices", "_indices"):
            break
        raise AnalysisError(f"{f.qualname}: cannot trace the index tuple {src(v)}")
    # predicate true  <=>  current.dual XOR neg ; current.dual = orig.dual XOR conj
    selects_orig_dual = ((neg + conj) % 2 == 0)
    return selects_orig_dual, n, (neg, conj)


def _modify_kwargs(ctx, f):
    mods = [c for c in walk_own(f.node) if isinstance(c, ast.Call) and isinstance(c.func, ast.Attribute)
            and c.func.attr == "modify" and any(k.arg == "indices" for k in c.keywords)]
    ctx.need(len(mods) == 1, f"{f.qualname}: expected one modify(indices=...) call")
    return {k.arg: k.value for k in mods[0].keywords}, mods[0]


def check_siblings(prog, ctx):
    rid = "R10.1"
    from engine.inline import inlined_func

    conj = inlined_func(prog, prog.func("symmray.fermionic_core:FermionicArray.conj"))
    dag = inlined_func(prog, prog.func("symmray.fermionic_core:FermionicArray.dagger"))
    kc, mc = _modify_kwargs(ctx, conj)
    kd, md = _modify_kwargs(ctx, dag)
    # (a) charge
    for f, k, m in ((conj, kc, mc), (dag, kd, md)):
        ctx.check("charge" in k and src(k["charge"]) == "new.symmetry.sign(new._charge)", rid, f, m, src(m)[:80],
                  f"(a) {f.name}: total charge becomes sign(charge)")
        ctx.check("oddpos" in k and src(k["oddpos"]) == "oddpos_dag(new._oddpos)", rid, f, m, src(m)[:80],
                  f"(b) {f.name}: odd-position labels are conjugated and reversed (oddpos_dag)")
        ix = k.get("indices")
        ctx.check(ix is not None, rid, f, m, "indices", f"{f.name}: installs conjugated indices in the same modify()")
    # (c) odd global sign condition
    conds = {}
    for f in (conj, dag):
        ifs = [n for n in walk_own(f.node) if isinstance(n, ast.If) and any(
            isinstance(c, ast.Call) and src(c.func) == "new.phase_global" for s in n.body for c in ast.walk(s))]
        ctx.need(len(ifs) == 1, f"{f.qualname}: expected one guarded phase_global")
        conds[f.name] = (conjuncts(ifs[0].test), ifs[0])
        # the sign must be taken after the labels/charge were updated (uses new.parity of the new charge: same parity)
        after = ifs[0].lineno > (mc if f is conj else md).lineno
        ctx.check(after, rid, f, ifs[0], "order", f"(c) {f.name}: the odd global sign is decided after charge and labels are updated")
    base = parse_cond("new.parity and len(new._oddpos) % 2 == 1")
    ctx.check(conds["dagger"][0] == base, rid, dag, conds["dagger"][1], src(conds["dagger"][1].test),
              "(c) dagger: global sign iff odd parity and an odd number of labels")
    ctx.check(conds["conj"][0] == base | parse_cond("phase_permutation"), rid, conj, conds["conj"][1], src(conds["conj"][1].test),
              "(c) conj: same condition, additionally gated by the virtual-reversal option")
    # (d) dual-leg selection
    sc, nc, dc = _leg_selection(ctx, conj)
    sd, nd, dd = _leg_selection(ctx, dag)
    ctx.check(sc, rid, conj, nc, src(nc), f"(d) conj: the dual-leg option selects the originally dual legs (negations={dc[0]}, conj applied={dc[1]})")
    ctx.check(sd, rid, dag, nd, src(nd), f"(d) dagger: the dual-leg option selects the originally dual legs (negations={dd[0]}, conj applied={dd[1]})")
    ctx.check(sc == sd, rid, dag, nd, "conj vs dagger leg sets", "(d) conj and dagger select the same set of legs")
    # the selected legs are used for a parity flip in both
    flips = [c for c in walk_own(dag.node) if isinstance(c, ast.Call) and src(c.func) == "new.phase_flip"]
    def uses_selection(call, sel, f):
        if any(x is sel for a in call.args for x in ast.walk(a)):
            return True
        for a in call.args:
            v = a.value if isinstance(a, ast.Starred) else a
            if isinstance(v, ast.Name):
                for d in ast.walk(f.node):
                    if isinstance(d, ast.Assign) and src(d.targets[0]) == v.id and any(x is sel for x in ast.walk(d.value)):
                        return True
        return False

    ctx.check(len(flips) == 1 and len(flips[0].args) == 1 and uses_selection(flips[0], nd, dag), rid, dag, dag.node, "flip",
              "(d) dagger applies phase_flip on exactly the selected legs")
    gate = [n for n in walk_own(dag.node) if isinstance(n, ast.If) and src(n.test) == "phase_dual"]
    ctx.check(len(gate) == 1 and flips and any(flips[0] is c for s in gate[0].body for c in ast.walk(s)), rid, dag, dag.node,
              "gate", "(d) dagger: the leg flip is gated by phase_dual only")
    par = [n for n in ast.walk(conj.node) if isinstance(n, ast.GeneratorExp) and isinstance(n.elt, ast.Subscript)
           and src(n.elt.slice) == src(n.generators[0].target)]
    okp = False
    for n in par:
        it = n.generators[0].iter
        if any(x is nc for x in ast.walk(it)):
            okp = True
        if isinstance(it, ast.Name):
            for d in ast.walk(conj.node):
                if isinstance(d, ast.Assign) and src(d.targets[0]) == it.id and any(x is nc for x in ast.walk(d.value)):
                    okp = True
    ctx.check(okp, rid, conj, conj.node, "parity sum", "(d) conj sums the parities of exactly the selected legs")
    # (e) exactly one kind of reversal
    conj_virtual = [c for c in ast.walk(conj.node) if isinstance(c, ast.Call) and src(c.func) == "calc_phase_permutation"
                    and len(c.args) == 2 and src(c.args[1]) == "None"]
    conj_physical = [n for n in ast.walk(conj.node) if (isinstance(n, ast.Call) and src(n.func) in ("reversed", "_transpose"))
                     or (isinstance(n, ast.Subscript) and src(n.slice) == "::-1")]
    ctx.check(len(conj_virtual) == 1 and not conj_physical, rid, conj, conj.node, "reversal",
              "(e) conj applies the reversal virtually (sign of the full reversal) and never physically")
    dag_virtual = [c for c in ast.walk(dag.node) if isinstance(c, ast.Call) and src(c.func) == "calc_phase_permutation"]
    has_rev_idx = any(isinstance(c, ast.Call) and src(c.func) == "reversed" and "indices" in src(c.args[0]) for c in ast.walk(dag.node))
    has_rev_sector = any(isinstance(n, ast.Subscript) and src(n.slice) == "::-1" and src(n.value) == "sector" for n in ast.walk(dag.node))
    has_tr = any(isinstance(c, ast.Call) and src(c.func) == "_transpose" and src(c.args[0]).startswith("_conj(") for c in ast.walk(dag.node))
    ctx.check(not dag_virtual and has_rev_idx and has_rev_sector and has_tr, rid, dag, dag.node, "reversal",
              "(e) dagger reverses indices, sectors and block axes physically and adds no reversal sign")
    ctx.minimum(rid, 14, "five ingredients x two siblings")


def check_abelian(prog, ctx):
    rid = "R10.0"
    f = prog.func("symmray.abelian_core:AbelianArray.dagger")
    rets = [n for n in walk_own(f.node) if isinstance(n, ast.Return)]
    ok = len(rets) == 1 and src(rets[0].value) == "self.conj(inplace=inplace).transpose(inplace=True)"
    ctx.check(ok, rid, f, f.node, src(rets[0]) if rets else "", "AbelianArray.dagger is conj (same in-place flag) then full transpose")
    for cname in ("AbelianArray", "FermionicArray"):
        c = prog.cls(cname)
        h = c.methods.get("H")
        ctx.need(h is not None and h.is_property, f"{cname}.H property vanished")
        r = [n for n in walk_own(h.node) if isinstance(n, ast.Return)]
        ctx.check(len(r) == 1 and src(r[0].value) == "self.dagger()", rid, h, h.node, "H", f"{cname}.H is dagger() with defaults")
    t = prog.cls("AbelianArray").methods.get("T")
    r = [n for n in walk_own(t.node) if isinstance(n, ast.Return)]
    ctx.check(len(r) == 1 and src(r[0].value) == "self.transpose()", rid, t, t.node, "T", "T is transpose() with defaults")
    ac = prog.func("symmray.abelian_core:AbelianArray.conj")
    mods = [c for c in walk_own(ac.node) if isinstance(c, ast.Call) and src(c.func) == "new.modify"]
    ok = len(mods) == 1 and {k.arg: src(k.value) for k in mods[0].keywords} == {
        "indices": "tuple((ix.conj() for ix in self._indices))", "charge": "self.symmetry.sign(self._charge)"}
    ctx.check(ok, rid, ac, ac.node, "abelian conj", "AbelianArray.conj flips every index direction and negates the charge together")
    ctx.minimum(rid, 5, "dagger, H x2, T, conj")


def run(prog, ctx):
    ctx.rule("R10.1", "FermionicArray.conj and .dagger agree on (a) charge, (b) labels, (c) odd global sign condition, (d) the set of "
             "legs selected by the dual-leg option (normalised to original direction), (e) exactly one kind of reversal")
    ctx.rule("R10.0", "AbelianArray.dagger == conj then transpose; H and T use the defaults")
    ctx.rule("R10.2", "abstract evaluation: conj applied twice and dagger applied twice return the original array")
    ctx.rule("R10.3", "abstract evaluation: dagger(phase_dual=p) equals conj(phase_dual=p) followed by the fermionic reversal of the axes")
    ctx.rule("R10.4", "abstract evaluation: x.conj(phase_dual=p) contracted with x over all axes (either order, every strategy) is the sum of "
                      "|block|^2 over all stored blocks whenever every index is ket-like or p is True (even and odd parity)")
    ctx.rule("R10.5", "abstract evaluation: for two-tensor networks <psi|psi> is the same signed sum of products whether the contracted array or "
             "each tensor is conjugated (bra-like dangling legs sign-flipped), site by site or ket first, and every |a b|^2 enters with +1")
    ctx.rule("R10.7", "abstract evaluation: for three-tensor chains <psi|psi> is the same signed sum of products whether the contracted array "
             "or each tensor is conjugated, with both groupings and zipped up site by site from either end, and every |a b c|^2 enters with +1")
    from rules.sem_adjoint import check_adjoint, check_chain3, check_networks

    check_adjoint(prog, ctx)
    check_networks(prog, ctx)
    check_chain3(prog, ctx)
    # R10.1 compares the TEXT of conj and dagger (def-use extraction). It can only add confidence: whether the two implementations agree in
    # behaviour is decided by R10.3 / R10.4 above. It is therefore run on a scratch context; what it finds is reported only when the
    # behavioural rules found something too, otherwise it is recorded as a note (a refactor may change the form without changing behaviour).
    from engine.report import Ctx as _Ctx

    scratch = _Ctx(prog, ctx.pid, ctx.tier)
    semantic_findings = bool(ctx.findings)
    try:
        check_siblings(prog, scratch)
        textual = list(scratch.findings)
    except AnalysisError as e:
        textual = None
        ctx.notes.append(f"R10.1 not applicable to the current form of conj / dagger ({e}); R10.2-R10.4 decide the behaviour")
    f = prog.func("symmray.fermionic_core:FermionicArray.conj")
    if textual is None:
        ctx.ok("R10.1", f"{f.file}:{f.qualname}", "sibling extraction not applicable to this form; conj / dagger agreement decided by R10.3")
    elif textual and not semantic_findings:
        ctx.notes.append("R10.1: the textual comparison of conj and dagger differs (" + "; ".join(x.message[:80] for x in textual[:3])
                         + ") while R10.2-R10.4 hold on every evaluated case: treated as a change of form, not of behaviour")
        ctx.ok("R10.1", f"{f.file}:{f.qualname}", "textual sibling comparison inconclusive for this form; behaviour decided by R10.2-R10.4")
    else:
        ctx.obligations.extend(scratch.obligations)
        ctx.findings.extend(textual)
    ctx.rule("R10.6", "abstract evaluation: conj flips directions / negates the charge / conjugates every block; abelian dagger = conj then full "
             "transpose; H = dagger(), T = transpose()")
    from rules.sem_adjoint import check_abelian_semantics

    check_abelian_semantics(prog, ctx)
    # R10.0 reads the TEXT of dagger / H / T / conj: confidence only behind R10.6
    ctx.confidence(check_abelian, ("R10.6",), "R10.0")
