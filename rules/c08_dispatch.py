"""C08 — structural / elementwise / arithmetic operations (partial: dispatch tables and key-set semantics).

R08.1  interface function -> method table (no unresolved method, no dispatch cycle)
R08.2  wrapper transparency (arguments forwarded once, in order; registered/exported under their own name)
R08.3  key-set semantics of the missing-block modes of the blockwise binary operation
R08.4  operator <-> mode / function / in-place table
R08.5  key-set semantics of multiply_diagonal
"""

from __future__ import annotations

import ast
import itertools

from engine.loader import AnalysisError, ClassInfo, FuncInfo, dotted, src, walk_own
from engine.minieval import Evaluator, Obj, Raised, Unsupported

PID = "C08"
EXPLANATION = (
    "Static checks of the dispatch layer and of the sparsity (key-set) semantics. (1) Every function of the interface module "
    "that delegates to a method must find that method in the method resolution order of each array class; where the wrapper "
    "falls back to autoray on AttributeError, a missing method is reported as a dispatch cycle (autoray's symmray backend resolves "
    "the name to the same wrapper). (2) Each wrapper forwards each of its parameters exactly once, in the method's order, and is "
    "exported / registered under its own name. (3) The blockwise binary operation and multiply_diagonal are abstractly "
    "interpreted (the checker's own evaluator, over tokens instead of arrays) on the finite key-set domain {left-only, shared, "
    "right-only}: for every combination of empty/non-empty regions the result key set must be L (strict, else raise), L union R "
    "(outer), L intersect R (inner), and block values must combine left and right tokens through the given function exactly on "
    "the shared region. (4) The operator dunders are compared with the table operator -> (function, allowed missing mode, "
    "in-place flag, operand order of the scalar fallback). Numerical agreement with the dense operation is not decided."
)
ASSUMPTIONS = [
    "the blockwise code treats keys uniformly (one representative key per region is complete for membership-only code)",
    "autoray resolves ar.do(name, x) for a symmray object to symmray.<name>",
]

ARRAY_CLASSES = ("AbelianArray", "FermionicArray")


class Tok:
    """abstract array value: a term built from named leaves"""

    def __init__(self, term):
        self.term = term

    def _bin(self, op, o, rev=False):
        ot = o.term if isinstance(o, Tok) else ("const", o)
        return Tok((op, ot, self.term) if rev else (op, self.term, ot))

    def __mul__(self, o):
        return self._bin("mul", o)

    def __rmul__(self, o):
        return self._bin("mul", o, True)

    def __add__(self, o):
        return self._bin("add", o)

    def __radd__(self, o):
        return self._bin("add", o, True)

    def __sub__(self, o):
        return self._bin("sub", o)

    def __truediv__(self, o):
        return self._bin("div", o)

    def __neg__(self):
        return Tok(("neg", self.term))

    def __eq__(self, o):
        return isinstance(o, Tok) and self.term == o.term

    def __hash__(self):
        return hash(self.term)

    def __repr__(self):
        return f"Tok{self.term}"


def check_interface(prog, ctx):
    mod = prog.module("symmray.interface")
    init = prog.module("symmray")
    exported = set(init.consts.get("__all__", ()) or ())
    if not exported:
        try:
            exported = set(prog.eval_const(init, init.assigns["__all__"]))
        except Exception:
            raise AnalysisError("symmray.__all__ is not a constant tuple")
    regs = {name: fsrc for (backend, name, fsrc, node) in mod.registrations if backend == "symmray"}
    n = 0
    for name, f in sorted(mod.functions.items()):
        if any("singledispatch" in d for d in f.decorators):
            continue
        params = f.all_params()
        body = [s for s in f.node.body if not (isinstance(s, ast.Expr) and isinstance(s.value, ast.Constant))]
        ret = None
        fallback = None
        if len(body) == 1 and isinstance(body[0], ast.Return):
            ret = body[0]
        elif len(body) == 1 and isinstance(body[0], ast.Try) and len(body[0].body) == 1 \
                and isinstance(body[0].body[0], ast.Return) and len(body[0].handlers) == 1:
            ret = body[0].body[0]
            h = body[0].handlers[0]
            if src(h.type) == "AttributeError" and len(h.body) == 1 and isinstance(h.body[0], ast.Return):
                fallback = h.body[0].value
        ok_shape = ret is not None and isinstance(ret.value, ast.Call) and isinstance(ret.value.func, ast.Attribute) \
            and isinstance(ret.value.func.value, ast.Name) and ret.value.func.value.id in params
        ctx.check(ok_shape, "R08.2", f, f.node, "wrapper shape", f"interface.{name} is a single delegating return")
        if not ok_shape:
            continue
        call = ret.value
        recv = call.func.value.id
        m = call.func.attr
        n += 1
        # R08.1 method resolvable in every array class
        missing = [c for c in ARRAY_CLASSES if prog.lookup_method(prog.cls(c), m) is None]
        if missing and fallback is not None:
            ctx.bad("R08.1", f, call, f"{recv}.{m}()",
                    f"no `{m}` method on {missing}: AttributeError falls back to {src(fallback)}, which autoray resolves to "
                    f"symmray.{name} again (dispatch cycle symmray.{name} -> x.{m} ✗ -> {src(fallback)} -> symmray.{name})")
        elif missing:
            ctx.bad("R08.1", f, call, f"{recv}.{m}()", f"no `{m}` method on {missing}")
        else:
            ctx.ok("R08.1", f"{f.file}:{name}", f"x.{m} resolves on {', '.join(ARRAY_CLASSES)}")
        ctx.check(m == name, "R08.2", f, call, f"{name} -> .{m}", f"interface.{name} delegates to the method of the same name")
        if fallback is not None:
            okf = isinstance(fallback, ast.Call) and src(fallback.func) == "ar.do" and len(fallback.args) == 2 \
                and isinstance(fallback.args[0], ast.Constant) and fallback.args[0].value == name and src(fallback.args[1]) == recv
            ctx.check(okf, "R08.2", f, fallback, src(fallback), f"fallback for non-symmray input is ar.do({name!r}, {recv})")
        # arguments forwarded once each, in the wrapper's order (receiver excluded)
        others = [p for p in params if p != recv]
        fwd = []
        for a in call.args:
            fwd.append(src(a.value) if isinstance(a, ast.Starred) else src(a))
        for k in call.keywords:
            fwd.append(src(k.value))
        ctx.check(fwd == others, "R08.2", f, call, src(call), f"forwards its parameters {others} exactly once, in order")
        # the method accepts them positionally in that order
        for c in ARRAY_CLASSES:
            g = prog.lookup_method(prog.cls(c), m)
            if g is None:
                continue
            gp = g.params()[1:]
            npos = len([a for a in call.args if not isinstance(a, ast.Starred)])
            names = [src(a) for a in call.args if not isinstance(a, ast.Starred)]
            has_var = g.node.args.vararg is not None
            common = [x for x in names if x in gp]
            ok = (has_var or npos <= len(gp)) and common == [p for p in gp if p in common]
            ctx.check(ok, "R08.2", f, call, src(call),
                      f"{c}.{m}{tuple(gp)} accepts {npos} positional argument(s); same-named parameters keep their order")
        ctx.check(name in exported, "R08.2", f, f.node, f"{name} not exported", f"symmray.{name} is exported in __all__")
    for rname, fsrc in sorted(regs.items()):
        ctx.check(fsrc == rname and rname in mod.functions, "R08.2", (mod.relpath, rname), None, f"register {rname} -> {fsrc}",
                  f"autoray registration '{rname}' points at the function of the same name")
    ctx.minimum("R08.1", 20, "interface wrappers")
    ctx.minimum("R08.2", 80, "wrappers x (shape, name, forwarding, order, export)")


# --------------------------------------------------------------------------- key-set semantics


def _vec(prog, blocks):
    return Obj(prog.cls("BlockVector"), {"_blocks": dict(blocks)})


def check_binary_keysets(prog, ctx):
    rid = "R08.3"
    f = prog.func("symmray.block_core:BlockBase._binary_blockwise_op")
    fn = lambda a, b: Tok(("f", a.term, b.term))  # noqa: E731
    ncase = 0
    for mode in (None, "outer", "inner"):
        bad = None
        for na, nb, nc in itertools.product((0, 1, 2), repeat=3):
            if na + nb + nc == 0:
                continue
            L = {f"a{i}": Tok(("x", f"a{i}")) for i in range(na)}
            L.update({f"b{i}": Tok(("x", f"b{i}")) for i in range(nb)})
            R = {f"b{i}": Tok(("y", f"b{i}")) for i in range(nb)}
            R.update({f"c{i}": Tok(("y", f"c{i}")) for i in range(nc)})
            for inplace in (False, True):
                x, y = _vec(prog, L), _vec(prog, R)
                ev = Evaluator(prog, max_steps=20000)
                ncase += 1
                try:
                    res = ev.call(f, [y, fn], {"missing": mode, "inplace": inplace}, self_obj=x)
                    out = res.fields["_blocks"]
                    raised = False
                except Raised:
                    raised = True
                    out = None
                except Unsupported as e:
                    raise AnalysisError(f"_binary_blockwise_op outside the evaluable sub-language: {e}")
                except RuntimeError as e:
                    bad = bad or f"mode={mode!r} L={sorted(L)} R={sorted(R)}: {type(e).__name__}: {e}"
                    continue
                want_keys = {None: set(L), "outer": set(L) | set(R), "inner": set(L) & set(R)}[mode]
                if mode is None:
                    should_raise = bool(na or nc)
                    if should_raise != raised:
                        bad = bad or (f"strict mode with left-only={na} right-only={nc}: "
                                      f"{'raised' if raised else 'returned'} but should {'raise' if should_raise else 'return'}")
                    if raised:
                        continue
                elif raised:
                    bad = bad or f"mode={mode!r} raised on L={sorted(L)} R={sorted(R)}"
                    continue
                if set(out) != want_keys:
                    bad = bad or (f"mode={mode!r} L={sorted(L)} R={sorted(R)}: result keys {sorted(out)} "
                                  f"!= {sorted(want_keys)}")
                    continue
                for k, v in out.items():
                    want = Tok(("f", ("x", k), ("y", k))) if (k in L and k in R) else (L.get(k) or R.get(k))
                    if v != want:
                        bad = bad or f"mode={mode!r} key {k}: value {v} != {want}"
                # operands untouched when not in place
                if not inplace and (set(x.fields["_blocks"]) != set(L) or set(y.fields["_blocks"]) != set(R)):
                    bad = bad or f"mode={mode!r}: operand key sets changed although inplace=False"
                if inplace and res is not x:
                    bad = bad or f"mode={mode!r}: inplace=True did not return the left operand"
        want_txt = {None: "L (raise on any one-sided block)", "outer": "L union R", "inner": "L intersect R"}[mode]
        ctx.check(bad is None, rid, f, f.node, f"missing={mode!r}",
                  f"missing={mode!r}: result key set is {want_txt}; shared keys hold fn(left, right), one-sided keys their own block"
                  + ("" if bad is None else f" — witness: {bad}"))
    ctx.notes.append(f"R08.3: {ncase} region configurations evaluated abstractly")
    ctx.minimum(rid, 3, "three modes")


def check_multiply_diagonal(prog, ctx):
    rid = "R08.5"
    f = prog.func("symmray.abelian_core:AbelianArray.multiply_diagonal")
    arr = prog.cls("AbelianArray")
    ix = prog.cls("BlockIndex")

    def reshape(v, shape):
        return v

    stubs = {
        "ar.get_lib_fn": lambda backend, name: {"reshape": reshape}[name],
        "DEBUG": False,
    }
    bad = None
    ncase = 0
    for axis in (0, 1):
        for present in ((0,), (1,), (0, 1), ()):
            sectors = [(0, 0), (0, 1), (1, 0), (1, 1)]
            blocks = {s: Tok(("x", s)) for s in sectors}
            vblocks = {c: Tok(("v", c)) for c in present}
            for inplace in (False, True):
                indices = tuple(Obj(ix, {"_dual": False, "_chargemap": {0: 1, 1: 1}, "_subinfo": None, "_hashkey": None})
                                for _ in range(2))
                x = Obj(arr, {"_blocks": dict(blocks), "_indices": indices, "_charge": 0, "_symmetry": None})
                v = _vec(prog, vblocks)
                ev = Evaluator(prog, stubs=dict(stubs, **{"ar.infer_backend": lambda a: "tok"}), max_steps=20000)
                ncase += 1
                try:
                    res = ev.call(f, [v, axis], {"inplace": inplace}, self_obj=x)
                except Unsupported as e:
                    raise AnalysisError(f"multiply_diagonal outside the evaluable sub-language: {e}")
                except (Raised, RuntimeError, KeyError) as e:
                    bad = bad or f"axis={axis} vector charges {present}: {type(e).__name__}: {e}"
                    continue
                out = res.fields["_blocks"]
                want = {s for s in sectors if s[axis] in present}
                if set(out) != want:
                    bad = bad or f"axis={axis} vector charges {present}: result sectors {sorted(out)} != {sorted(want)}"
                    continue
                for s, val in out.items():
                    if val != Tok(("mul", ("x", s), ("v", s[axis]))):
                        bad = bad or f"sector {s}: value {val} is not block * vector[{s[axis]}]"
                if not inplace and set(x.fields["_blocks"]) != set(sectors):
                    bad = bad or "operand changed although inplace=False"
    ctx.check(bad is None, rid, f, f.node, "multiply_diagonal key set",
              f"result sectors are exactly those whose charge along the axis the vector has; each is block * vector block "
              f"({ncase} configurations)" + ("" if bad is None else f" — witness: {bad}"))
    ctx.minimum(rid, 1, "multiply_diagonal")


# --------------------------------------------------------------------------- operator table

OPS = {
    # dunder: (operator fn, allowed missing modes, inplace, scalar lambda body)
    "__add__": ("operator.add", {"outer", None}, False, "x + other"),
    "__iadd__": ("operator.add", {"outer", None}, True, "x + other"),
    "__radd__": (None, None, False, "other + x"),
    "__sub__": ("operator.sub", {None}, False, "x - other"),
    "__isub__": ("operator.sub", {None}, True, "x - other"),
    "__rsub__": (None, None, False, "other - x"),
    "__mul__": ("operator.mul", {"inner", None}, False, "x * other"),
    "__imul__": ("operator.mul", {"inner", None}, True, "x * other"),
    "__truediv__": ("operator.truediv", {None}, False, "x / other"),
    "__itruediv__": ("operator.truediv", {None}, True, "x / other"),
    "__rtruediv__": (None, None, False, "other / x"),
    "__pow__": ("operator.pow", {None}, False, "x ** other"),
    "__ipow__": ("operator.pow", {None}, True, "x ** other"),
    "__rpow__": (None, None, False, "other ** x"),
}


def check_operators(prog, ctx):
    rid = "R08.4"
    n = 0
    for cname in ("BlockBase", "BlockVector"):
        ci = prog.cls(cname)
        for dn, (opfn, modes, inplace, lam) in OPS.items():
            f = ci.methods.get(dn)
            if f is None:
                continue
            calls = [c for c in walk_own(f.node) if isinstance(c, ast.Call) and src(c.func) == "self._binary_blockwise_op"]
            for c in calls:
                n += 1
                kws = {k.arg: k.value for k in c.keywords}
                fn_expr = kws.get("fn") or (c.args[1] if len(c.args) > 1 else None)
                mode = kws.get("missing")
                mode_v = mode.value if isinstance(mode, ast.Constant) else (None if mode is None else "?")
                ip = kws.get("inplace")
                ip_v = ip.value if isinstance(ip, ast.Constant) else (False if ip is None else "?")
                ctx.check(opfn is not None and fn_expr is not None and src(fn_expr) == opfn, rid, f, c, src(c)[:100],
                          f"{cname}.{dn} combines blocks with {opfn}")
                ctx.check(modes is not None and mode_v in modes, rid, f, c, f"missing={mode_v!r}",
                          f"{cname}.{dn} uses a missing-block mode in {sorted(map(str, modes or []))} "
                          "(a one-sided block must not be kept un-negated / un-inverted)")
                ctx.check(ip_v == inplace, rid, f, c, f"inplace={ip_v}", f"{cname}.{dn} passes inplace={inplace}")
                ctx.check(src(c.args[0]) == "other" if c.args else False, rid, f, c, "right operand",
                          f"{cname}.{dn} passes `other` as the right operand")
            lambdas = [l for l in ast.walk(f.node) if isinstance(l, ast.Lambda)]
            for l in lambdas:
                n += 1
                ctx.check(src(l.body) == lam, rid, f, l, src(l), f"{cname}.{dn} scalar fallback computes `{lam}`")
            # in-place variants return self, others a copy
            if inplace and lambdas:
                rets = [r for r in walk_own(f.node) if isinstance(r, ast.Return) and src(r.value) == "self"]
                ctx.check(bool(rets), rid, f, f.node, "returns self", f"{cname}.{dn} returns self after the in-place scalar update")
    ctx.minimum(rid, 50, "dunder table of BlockBase and BlockVector")


def check_unary(prog, ctx):
    """elementwise / reduction methods map the function of the same name"""
    rid = "R08.4"
    bb = prog.cls("BlockBase")
    for name, f in sorted(bb.methods.items()):
        calls = [c for c in walk_own(f.node) if isinstance(c, ast.Call)
                 and src(c.func) in ("self._do_unary_op", "self._do_reduction")]
        for c in calls:
            if c.args and isinstance(c.args[0], ast.Constant):
                ctx.check(c.args[0].value == name, rid, f, c, src(c),
                          f"BlockBase.{name} applies the backend function {name!r}")


def run(prog, ctx):
    ctx.rule("R08.1", "every interface wrapper's method exists on AbelianArray and FermionicArray; a missing method behind an "
             "AttributeError fallback is a dispatch cycle")
    ctx.rule("R08.2", "wrappers are single delegating returns that forward each parameter once, in the method's order, delegate to "
             "the same name, and are exported / registered under it")
    ctx.rule("R08.3", "abstract interpretation of _binary_blockwise_op over key regions: strict -> L or raise, outer -> L union R, "
             "inner -> L intersect R; values fn(l, r) on the shared region only")
    ctx.rule("R08.4", "operator dunders agree with the table (function, allowed missing mode, in-place flag, scalar operand order); "
             "unary/reduction methods apply the backend function of their own name")
    ctx.rule("R08.5", "abstract interpretation of multiply_diagonal: sectors whose axis charge the vector lacks are deleted, others scaled")
    check_interface(prog, ctx)
    check_binary_keysets(prog, ctx)
    check_multiply_diagonal(prog, ctx)
    check_operators(prog, ctx)
    check_unary(prog, ctx)
