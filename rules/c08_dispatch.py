"""C08 — structural / elementwise / arithmetic operations (partial: dispatch tables and key-set semantics).

R08.1  interface function -> method table (no unresolved method, no dispatch cycle)
R08.2  wrapper transparency (arguments forwarded once, in order; registered/exported under their own name)
R08.3  key-set semantics of the missing-block modes of the blockwise binary operation
R08.4  operator <-> mode / function / in-place table
R08.5  key-set semantics of multiply_diagonal
"""

from __future__ import annotations

import ast
import itertools

from engine.loader import AnalysisError, ClassInfo, FuncInfo, dotted, src, walk_own
from engine.minieval import Closure, Evaluator, Obj, Raised, Unsupported

PID = "C08"
EXPLANATION = (
    "Checks of the dispatch layer and of the sparsity (key-set) semantics. (1)+(2) Every function of the interface module is invoked, "
    "by the checker's evaluator on shaped tokens, in the three ways a user can reach it - as symmray.<name>(...), as the method of "
    "the same name, and through the autoray dispatch ar.do('<name>', ...), which resolves to symmray.<name> - on an abelian array, a "
    "fermionic array with pending signs and, where the method exists, a block vector; the three results must be equal (same class, "
    "indices, charge, blocks, pending signs). A wrapper whose method is missing falls into its AttributeError fallback, which asks "
    "autoray for the same name and re-enters the wrapper: reported as a dispatch cycle. Each function must be exported and every "
    "autoray registration must point at the function of its own name. (3) The blockwise binary operation and multiply_diagonal are abstractly "
    "interpreted (the checker's own evaluator, over tokens instead of arrays) on the finite key-set domain {left-only, shared, "
    "right-only}: for every combination of empty/non-empty regions the result key set must be L (strict, else raise), L union R "
    "(outer), L intersect R (inner), and block values must combine left and right tokens through the given function exactly on "
    "the shared region. (4) The operator dunders are compared with the table operator -> (function, allowed missing mode, "
    "in-place flag, operand order of the scalar fallback). Numerical agreement with the dense operation is not decided."
)
ASSUMPTIONS = [
    "the blockwise code treats keys uniformly (one representative key per region is complete for membership-only code)",
    "autoray resolves ar.do(name, x) for a symmray object to symmray.<name>",
]

ARRAY_CLASSES = ("AbelianArray", "FermionicArray")


class Tok:
    """abstract array value: a term built from named leaves"""

    def __init__(self, term):
        self.term = term

    def _bin(self, op, o, rev=False):
        ot = o.term if isinstance(o, Tok) else ("const", o)
        return Tok((op, ot, self.term) if rev else (op, self.term, ot))

    def __mul__(self, o):
        return self._bin("mul", o)

    def __rmul__(self, o):
        return self._bin("mul", o, True)

    def __add__(self, o):
        return self._bin("add", o)

    def __radd__(self, o):
        return self._bin("add", o, True)

    def __sub__(self, o):
        return self._bin("sub", o)

    def __truediv__(self, o):
        return self._bin("div", o)

    def __neg__(self):
        return Tok(("neg", self.term))

    def __eq__(self, o):
        return isinstance(o, Tok) and self.term == o.term

    def __hash__(self):
        return hash(self.term)

    def __repr__(self):
        return f"Tok{self.term}"


def _snapshot(v):
    """structural value of a result, for comparing two ways of invoking the same operation"""
    from rules.sem_layout import ixdesc

    if isinstance(v, Obj):
        f = v.fields
        if "_indices" in f:
            return (v.cls.name, tuple(ixdesc(i) for i in f["_indices"]), repr(f.get("_charge")),
                    tuple(sorted((repr(k), repr(getattr(b, "term", b)), getattr(b, "shape", None)) for k, b in f["_blocks"].items())),
                    tuple(sorted((repr(k), p) for k, p in (f.get("_phases") or {}).items())), len(f.get("_oddpos", ()) or ()))
        if "_blocks" in f:
            return (v.cls.name, tuple(sorted((repr(k), repr(getattr(b, "term", b))) for k, b in f["_blocks"].items())))
        return (v.cls.name, repr(sorted(f)))
    if isinstance(v, (tuple, list)):
        return tuple(_snapshot(x) for x in v)
    return repr(getattr(v, "term", v))


def _samples(prog, w, fname, params, kind):
    """sample operands for an interface function, chosen by parameter name; kind in {abelian, fermionic, vector}"""
    from engine.absarray import STok
    from engine.absops import TABLES, Spec, partner

    fm = kind == "fermionic"
    sym = "U1"
    t = TABLES[sym]
    if kind == "vector":
        vec = lambda: Obj(prog.cls("BlockVector"), {"_blocks": {c: STok(("v", c), (d,)) for c, d in t[0].items()}})  # noqa: E731
        main = vec
    elif fname == "trace":
        sp = Spec(sym, (True, False), 0, (t[0], t[0]), drop="first", fermionic=fm, signs=(1 if fm else 0))
        main = lambda: sp.build(w)  # noqa: E731
    elif fname == "squeeze":
        sp = Spec(sym, (False, True, False), 1, (t[0], {0: 1}, t[1]), drop="first", fermionic=fm, signs=(1 if fm else 0))
        main = lambda: sp.build(w)  # noqa: E731
    else:
        sp = Spec(sym, (False, True, False), 1, t[:3], drop="first", fermionic=fm, signs=(2 if fm else 0))
        main = lambda: sp.build(w)  # noqa: E731
    out = {}
    for p_ in params:
        if p_ in ("x", "a"):
            out[p_] = main
        elif p_ == "y":
            other = partner(sp, 1, 1, drop="alternate")
            out[p_] = lambda other=other: other.build(w)
        elif p_ == "eq":
            out[p_] = lambda: "abc->cab"
        elif p_ == "axes" and fname == "align_axes":
            out[p_] = lambda: ((2,), (0,))
        elif p_ == "axes":
            out[p_] = lambda: (2, 0, 1)
        elif p_ == "axis":
            out[p_] = lambda: 1
        elif p_ == "newshape":
            out[p_] = lambda: tuple(sum(tab.values()) for tab in t[:3])
        elif p_ == "a_min":
            out[p_] = lambda: -1.0
        elif p_ == "a_max":
            out[p_] = lambda: 1.0
        elif p_ == "v":
            out[p_] = lambda: Obj(prog.cls("BlockVector"), {"_blocks": {c: STok(("v", c), (d,)) for c, d in list(t[1].items())[:-1]}})
        elif p_ == "axes_groups":
            out[p_] = lambda: ((0, 1),)
        else:
            raise AnalysisError(f"interface.{fname}: no sample operand for parameter `{p_}` (new wrapper form: extend rules/c08_dispatch._samples)")
    return out


class _Cycle(Exception):
    pass


class _Made:
    """an interface function bound at module level to the product of a factory; quacks like a FuncInfo where the rule needs one"""

    def __init__(self, mod, name, rhs, closure):
        self.module, self.name, self.qualname, self.closure = mod, name, name, closure
        self.node = closure.node
        self.decorators = []
        self.file = mod.relpath
        self.lineno = rhs.lineno
        self.fq = f"{mod.name}:{name}"


def check_interface(prog, ctx):
    """R08.1 / R08.2 by abstract evaluation: every interface function is invoked as a function, as the method of the same
    name and through the autoray dispatch (`ar.do(name, ...)`, which resolves to the symmray function of that name), on an
    abelian array, a fermionic array and (where the method exists) a block vector of shaped tokens; the three results must be
    equal.  A wrapper whose method is missing falls back to autoray, which resolves to the wrapper again: reported as a cycle."""
    from engine.absarray import shaped_evaluator, shaped_libfn
    from engine.absops import PYERR, World

    mod = prog.module("symmray.interface")
    init = prog.module("symmray")
    exported = set(init.consts.get("__all__", ()) or ())
    if not exported:
        try:
            exported = set(prog.eval_const(init, init.assigns["__all__"]))
        except Exception:
            raise AnalysisError("symmray.__all__ is not a constant tuple")
    regs = {name: fsrc for (backend, name, fsrc, node) in mod.registrations if backend == "symmray"}
    w = World(prog)
    n = 0
    # interface functions are `def`s or, equally, public module-level names bound to a function made by a private factory
    # (`max = _method_caller("max", doc)`): those are obtained by evaluating the binding
    made = {}
    anyf = next(iter(mod.functions.values()), None)
    for name, rhs in sorted(getattr(mod, "assigns", {}).items()):
        if name.startswith("_") or name in mod.functions or not isinstance(rhs, ast.Call) or anyf is None:
            continue
        try:
            v = shaped_evaluator(prog).expr(rhs, {}, anyf)
        except (Unsupported, Raised) + PYERR:
            continue
        if isinstance(v, Closure):
            made[name] = _Made(mod, name, rhs, v)
    funcs = dict(mod.functions)
    funcs.update(made)
    for name, f in sorted(funcs.items()):
        if name.startswith("_") or any("singledispatch" in d for d in f.decorators):
            continue
        a = f.node.args
        params = [x.arg for x in a.posonlyargs + a.args] + ([a.vararg.arg] if a.vararg else [])
        ctx.check(name in exported, "R08.2", f, f.node, f"{name} not exported", f"symmray.{name} is exported in __all__")
        for kind in ("abelian", "fermionic", "vector"):
            cls = prog.cls({"abelian": "AbelianArray", "fermionic": "FermionicArray", "vector": "BlockVector"}[kind])
            has_method = prog.lookup_method(cls, name) is not None
            if kind == "vector" and (not has_method or len(params) != 1):
                continue  # block vectors are served only where they have the method
            samples = _samples(prog, w, name, params, kind)
            active = []
            get = shaped_libfn()

            def ar_do(fn_name, *args, like=None, **kw):
                target = prog.resolve_name(init, fn_name) or (mod.functions.get(regs.get(fn_name)) if fn_name in regs else None)
                if fn_name in made and not isinstance(target, FuncInfo):
                    target = made[fn_name]
                if any(isinstance(x, Obj) for x in args) and isinstance(target, (FuncInfo, _Made)):
                    if fn_name in active:
                        raise _Cycle(fn_name)
                    active.append(fn_name)
                    try:
                        return ev.apply(target.closure if isinstance(target, _Made) else target, list(args), kw, None)
                    finally:
                        active.pop()
                return get(like, fn_name)(*args, **kw)

            def build():
                vals = []
                for p_ in params:
                    v = samples[p_]()
                    if a.vararg and p_ == a.vararg.arg:
                        vals.extend(v)
                    else:
                        vals.append(v)
                return vals

            results = {}
            for way in ("function", "method", "autoray"):
                ev = shaped_evaluator(prog, extra={"ar.do": ar_do})
                try:
                    vals = build()
                    if way == "function":
                        r = ev.apply(f.closure if isinstance(f, _Made) else f, vals, {}, None)
                    elif way == "autoray":
                        r = ar_do(name, *vals)
                    else:
                        recv_i = next(i for i, p_ in enumerate(params) if p_ in ("x", "a"))
                        recv = vals[recv_i]
                        m = prog.lookup_method(recv.cls, name)
                        if m is None:
                            results[way] = ("missing", None)
                            continue
                        mparams = m.params()[1:]
                        rest_names = [p_ for i, p_ in enumerate(params) if i != recv_i]
                        rest_vals = [v for i, v in enumerate(vals[:len(params)]) if i != recv_i] + list(vals[len(params):])
                        if a.vararg:
                            args_, kw_ = [v for i, v in enumerate(vals) if i != recv_i], {}
                        else:
                            # by name where the method has a parameter of that name, positionally otherwise
                            args_, kw_ = [], {}
                            for pn, v in zip(rest_names, rest_vals):
                                if pn in mparams:
                                    kw_[pn] = v
                                else:
                                    args_.append(v)
                        r = ev.call(m, args_, kw_, self_obj=recv)
                    results[way] = ("ok", _snapshot(r))
                except _Cycle as e:
                    results[way] = ("cycle", str(e))
                except Unsupported as e:
                    raise AnalysisError(f"interface.{name} ({kind}, as {way}) outside the evaluable sub-language: {e}")
                except Raised as e:
                    results[way] = ("raised", getattr(e, "exc_name", None))
                except RecursionError:
                    results[way] = ("cycle", "recursion")
                except PYERR as e:
                    results[way] = ("error", f"{type(e).__name__}: {e}")
            n += 1
            fn_r, me_r, au_r = results["function"], results["method"], results["autoray"]
            if "cycle" in (fn_r[0], au_r[0]):
                ctx.bad("R08.1", f, f.node, f"{name}:{kind}:cycle",
                        f"symmray.{name} on a {cls.name}: the method is missing, the AttributeError fallback asks autoray for "
                        f"'{name}', which resolves to symmray.{name} again (dispatch cycle)")
                continue
            if me_r[0] == "missing":
                ctx.bad("R08.1", f, f.node, f"{name}:{kind}:missing", f"no `{name}` method on {cls.name}: symmray.{name} gives {fn_r}")
                continue
            ctx.ok("R08.1", f"{f.file}:{name}", f"x.{name} resolves on {cls.name}; no dispatch cycle")
            ctx.check(fn_r == me_r, "R08.2", f, f.node, f"{name}:{kind}:function-vs-method",
                      f"symmray.{name}(...) and the method .{name}(...) give the same result on a {cls.name}"
                      + ("" if fn_r == me_r else f" — function: {str(fn_r)[:160]} / method: {str(me_r)[:160]}"))
            ctx.check(au_r == fn_r, "R08.2", f, f.node, f"{name}:{kind}:autoray-vs-function",
                      f"autoray dispatch of '{name}' and symmray.{name}(...) give the same result on a {cls.name}"
                      + ("" if au_r == fn_r else f" — autoray: {str(au_r)[:160]} / function: {str(fn_r)[:160]}"))
    for rname, fsrc in sorted(regs.items()):
        ctx.check(fsrc == rname and rname in funcs, "R08.2", (mod.relpath, rname), None, f"register {rname} -> {fsrc}",
                  f"autoray registration '{rname}' points at the function of the same name")
    ctx.minimum("R08.1", 40, "interface wrappers x array classes")
    ctx.minimum("R08.2", 80, "wrappers x (export, function = method, autoray = function)")


# --------------------------------------------------------------------------- key-set semantics


def _vec(prog, blocks):
    return Obj(prog.cls("BlockVector"), {"_blocks": dict(blocks)})


def check_binary_keysets(prog, ctx):
    rid = "R08.3"
    f = prog.func("symmray.block_core:BlockBase._binary_blockwise_op")
    fn = lambda a, b: Tok(("f", a.term, b.term))  # noqa: E731
    ncase = 0
    for mode in (None, "outer", "inner"):
        bad = None
        for na, nb, nc in itertools.product((0, 1, 2), repeat=3):
            if na + nb + nc == 0:
                continue
            L = {f"a{i}": Tok(("x", f"a{i}")) for i in range(na)}
            L.update({f"b{i}": Tok(("x", f"b{i}")) for i in range(nb)})
            R = {f"b{i}": Tok(("y", f"b{i}")) for i in range(nb)}
            R.update({f"c{i}": Tok(("y", f"c{i}")) for i in range(nc)})
            for inplace in (False, True):
                x, y = _vec(prog, L), _vec(prog, R)
                ev = Evaluator(prog, max_steps=20000)
                ncase += 1
                try:
                    res = ev.call(f, [y, fn], {"missing": mode, "inplace": inplace}, self_obj=x)
                    out = res.fields["_blocks"]
                    raised = False
                except Raised:
                    raised = True
                    out = None
                except Unsupported as e:
                    raise AnalysisError(f"_binary_blockwise_op outside the evaluable sub-language: {e}")
                except RuntimeError as e:
                    bad = bad or f"mode={mode!r} L={sorted(L)} R={sorted(R)}: {type(e).__name__}: {e}"
                    continue
                want_keys = {None: set(L), "outer": set(L) | set(R), "inner": set(L) & set(R)}[mode]
                if mode is None:
                    should_raise = bool(na or nc)
                    if should_raise != raised:
                        bad = bad or (f"strict mode with left-only={na} right-only={nc}: "
                                      f"{'raised' if raised else 'returned'} but should {'raise' if should_raise else 'return'}")
                    if raised:
                        continue
                elif raised:
                    bad = bad or f"mode={mode!r} raised on L={sorted(L)} R={sorted(R)}"
                    continue
                if set(out) != want_keys:
                    bad = bad or (f"mode={mode!r} L={sorted(L)} R={sorted(R)}: result keys {sorted(out)} "
                                  f"!= {sorted(want_keys)}")
                    continue
                for k, v in out.items():
                    want = Tok(("f", ("x", k), ("y", k))) if (k in L and k in R) else (L.get(k) or R.get(k))
                    if v != want:
                        bad = bad or f"mode={mode!r} key {k}: value {v} != {want}"
                # operands untouched when not in place
                if not inplace and (set(x.fields["_blocks"]) != set(L) or set(y.fields["_blocks"]) != set(R)):
                    bad = bad or f"mode={mode!r}: operand key sets changed although inplace=False"
                if inplace and res is not x:
                    bad = bad or f"mode={mode!r}: inplace=True did not return the left operand"
        want_txt = {None: "L (raise on any one-sided block)", "outer": "L union R", "inner": "L intersect R"}[mode]
        ctx.check(bad is None, rid, f, f.node, f"missing={mode!r}",
                  f"missing={mode!r}: result key set is {want_txt}; shared keys hold fn(left, right), one-sided keys their own block"
                  + ("" if bad is None else f" — witness: {bad}"))
    ctx.notes.append(f"R08.3: {ncase} region configurations evaluated abstractly")
    ctx.minimum(rid, 3, "three modes")


def check_multiply_diagonal(prog, ctx):
    rid = "R08.5"
    f = prog.func("symmray.abelian_core:AbelianArray.multiply_diagonal")
    arr = prog.cls("AbelianArray")
    ix = prog.cls("BlockIndex")

    def reshape(v, shape):
        return v

    stubs = {
        "ar.get_lib_fn": lambda backend, name: {"reshape": reshape}[name],
        "DEBUG": False,
    }
    bad = None
    ncase = 0
    for axis in (0, 1):
        for present in ((0,), (1,), (0, 1), ()):
            sectors = [(0, 0), (0, 1), (1, 0), (1, 1)]
            blocks = {s: Tok(("x", s)) for s in sectors}
            vblocks = {c: Tok(("v", c)) for c in present}
            for inplace in (False, True):
                indices = tuple(Obj(ix, {"_dual": False, "_chargemap": {0: 1, 1: 1}, "_subinfo": None, "_hashkey": None})
                                for _ in range(2))
                x = Obj(arr, {"_blocks": dict(blocks), "_indices": indices, "_charge": 0, "_symmetry": None})
                v = _vec(prog, vblocks)
                ev = Evaluator(prog, stubs=dict(stubs, **{"ar.infer_backend": lambda a: "tok"}), max_steps=20000)
                ncase += 1
                try:
                    res = ev.call(f, [v, axis], {"inplace": inplace}, self_obj=x)
                except Unsupported as e:
                    raise AnalysisError(f"multiply_diagonal outside the evaluable sub-language: {e}")
                except (Raised, RuntimeError, KeyError) as e:
                    bad = bad or f"axis={axis} vector charges {present}: {type(e).__name__}: {e}"
                    continue
                out = res.fields["_blocks"]
                want = {s for s in sectors if s[axis] in present}
                if set(out) != want:
                    bad = bad or f"axis={axis} vector charges {present}: result sectors {sorted(out)} != {sorted(want)}"
                    continue
                for s, val in out.items():
                    if val != Tok(("mul", ("x", s), ("v", s[axis]))):
                        bad = bad or f"sector {s}: value {val} is not block * vector[{s[axis]}]"
                if not inplace and set(x.fields["_blocks"]) != set(sectors):
                    bad = bad or "operand changed although inplace=False"
    ctx.check(bad is None, rid, f, f.node, "multiply_diagonal key set",
              f"result sectors are exactly those whose charge along the axis the vector has; each is block * vector block "
              f"({ncase} configurations)" + ("" if bad is None else f" — witness: {bad}"))
    ctx.minimum(rid, 1, "multiply_diagonal")


# --------------------------------------------------------------------------- operator table

OPS = {
    # dunder: (operator fn, allowed missing modes, inplace, scalar lambda body)
    "__add__": ("operator.add", {"outer", None}, False, "x + other"),
    "__iadd__": ("operator.add", {"outer", None}, True, "x + other"),
    "__radd__": (None, None, False, "other + x"),
    "__sub__": ("operator.sub", {None}, False, "x - other"),
    "__isub__": ("operator.sub", {None}, True, "x - other"),
    "__rsub__": (None, None, False, "other - x"),
    "__mul__": ("operator.mul", {"inner", None}, False, "x * other"),
    "__imul__": ("operator.mul", {"inner", None}, True, "x * other"),
    "__truediv__": ("operator.truediv", {None}, False, "x / other"),
    "__itruediv__": ("operator.truediv", {None}, True, "x / other"),
    "__rtruediv__": (None, None, False, "other / x"),
    "__pow__": ("operator.pow", {None}, False, "x ** other"),
    "__ipow__": ("operator.pow", {None}, True, "x ** other"),
    "__rpow__": (None, None, False, "other ** x"),
}


def check_operators(prog, ctx):
    rid = "R08.4"
    n = 0
    for cname in ("BlockBase", "BlockVector"):
        ci = prog.cls(cname)
        for dn, (opfn, modes, inplace, lam) in OPS.items():
            f = ci.methods.get(dn)
            if f is None:
                continue
            calls = [c for c in walk_own(f.node) if isinstance(c, ast.Call) and src(c.func) == "self._binary_blockwise_op"]
            for c in calls:
                n += 1
                kws = {k.arg: k.value for k in c.keywords}
                fn_expr = kws.get("fn") or (c.args[1] if len(c.args) > 1 else None)
                mode = kws.get("missing")
                mode_v = mode.value if isinstance(mode, ast.Constant) else (None if mode is None else "?")
                ip = kws.get("inplace")
                ip_v = ip.value if isinstance(ip, ast.Constant) else (False if ip is None else "?")
                ctx.check(opfn is not None and fn_expr is not None and src(fn_expr) == opfn, rid, f, c, src(c)[:100],
                          f"{cname}.{dn} combines blocks with {opfn}")
                ctx.check(modes is not None and mode_v in modes, rid, f, c, f"missing={mode_v!r}",
                          f"{cname}.{dn} uses a missing-block mode in {sorted(map(str, modes or []))} "
                          "(a one-sided block must not be kept un-negated / un-inverted)")
                ctx.check(ip_v == inplace, rid, f, c, f"inplace={ip_v}", f"{cname}.{dn} passes inplace={inplace}")
                ctx.check(src(c.args[0]) == "other" if c.args else False, rid, f, c, "right operand",
                          f"{cname}.{dn} passes `other` as the right operand")
            lambdas = [l for l in ast.walk(f.node) if isinstance(l, ast.Lambda)]
            for l in lambdas:
                n += 1
                ctx.check(src(l.body) == lam, rid, f, l, src(l), f"{cname}.{dn} scalar fallback computes `{lam}`")
            # in-place variants return self, others a copy
            if inplace and lambdas:
                rets = [r for r in walk_own(f.node) if isinstance(r, ast.Return) and src(r.value) == "self"]
                ctx.check(bool(rets), rid, f, f.node, "returns self", f"{cname}.{dn} returns self after the in-place scalar update")
    ctx.minimum(rid, 50, "dunder table of BlockBase and BlockVector")


def check_arithmetic(prog, ctx):
    """R08.6 by abstract evaluation: the arithmetic dunders of abelian arrays and block vectors, on operands with different stored
    sectors, give the block form of the dense result (a missing block is a zero block) or raise; in-place forms return the operand."""
    from engine.absarray import STok, shaped_evaluator
    from engine.absops import PYERR, TABLES, Spec, World

    rid = "R08.6"
    w = World(prog)
    n = 0
    bad = {}
    sym = "U1"
    t = TABLES[sym]

    def arr(tag, drop):
        # three sectors (c, c): `alternate` keeps the outer two, `first` the last two, so each side has a sector the other lacks
        return Spec(sym, (False, True), 0, (t[0], t[0]), drop=drop, tag=tag).build(w)

    def vec(tag, keep):
        return Obj(prog.cls("BlockVector"), {"_blocks": {c: STok((tag, c), (d,)) for c, d in list(t[0].items())[keep]}})

    def nz(d):
        return {k: repr(v) for k, v in d.items() if not (isinstance(v, tuple) and v and v[0] == "zeros")}

    def ref(op, L, R):
        out = {}
        for k in sorted(set(L) | set(R), key=repr):
            l, r = L.get(k), R.get(k)
            if op == "add":
                v = (l + r) if (l is not None and r is not None) else (l if l is not None else r)
            elif op == "sub":
                v = (l - r) if (l is not None and r is not None) else (l if l is not None else -r)
            elif op == "mul":
                v = (l * r) if (l is not None and r is not None) else None
            elif op == "truediv":
                if l is None:
                    v = None
                elif r is None:
                    return None  # division by a zero block: only raising is acceptable
                else:
                    v = l / r
            if v is not None:
                out[k] = v.term
        return out

    kinds = {"array": (lambda: arr("x", "none"), [("same sectors", lambda: arr("y", "none")), ("fewer sectors", lambda: arr("y", "alternate")),
                                                  ("other sectors", lambda: arr("y", "first"))], lambda: arr("x", "alternate")),
             "vector": (lambda: vec("x", slice(None)), [("same sectors", lambda: vec("y", slice(None))), ("fewer sectors", lambda: vec("y", slice(1, None)))],
                        lambda: vec("x", slice(0, -1)))}
    for kind, (full, others, partial) in kinds.items():
        for dn, op in (("__add__", "add"), ("__sub__", "sub"), ("__mul__", "mul"), ("__truediv__", "truediv"),
                       ("__iadd__", "add"), ("__isub__", "sub"), ("__imul__", "mul"), ("__itruediv__", "truediv")):
            for lname, mk_l in (("all sectors", full), ("some sectors", partial)):
                for rname, mk_r in others:
                    ev = shaped_evaluator(prog)
                    x, y = mk_l(), mk_r()
                    m = prog.lookup_method(x.cls, dn)
                    if m is None:
                        continue
                    L = dict(x.fields["_blocks"])
                    R = dict(y.fields["_blocks"])
                    want = ref(op, L, R)
                    where = f"{kind} {dn}: left with {lname}, right with {rname}"
                    n += 1
                    try:
                        r = ev.call(m, [y], {}, self_obj=x)
                    except Unsupported as e:
                        raise AnalysisError(f"{x.cls.name}.{dn} outside the evaluable sub-language: {e}")
                    except (Raised,) + PYERR:
                        continue  # raising is always acceptable
                    if r is NotImplemented:
                        continue  # Python turns it into a TypeError (no reflected operator on the right operand)
                    if not isinstance(r, Obj):
                        bad.setdefault(f"{kind} {dn}: result", f"{where}: returns {type(r).__name__}")
                        continue
                    got = nz({k: b.term for k, b in r.fields["_blocks"].items()})
                    if want is None or got != nz(want):
                        diff = sorted(set(got) ^ set(nz(want or {})), key=repr)[:2] or [k for k in got if got[k] != nz(want or {}).get(k)][:2]
                        bad.setdefault(f"{kind} {dn}: value", f"{where}: the result is not the block form of the dense result (sectors {diff}: "
                                                              f"got {[got.get(k) for k in diff]}, dense gives {[nz(want or {}).get(k) for k in diff]})")
                    if dn.startswith("__i") and r is not x:
                        bad.setdefault(f"{kind} {dn}: in place", f"{where}: the in-place operator returns another object")
                    if not dn.startswith("__i") and nz({k: b.term for k, b in x.fields["_blocks"].items()}) != nz({k: v.term for k, v in L.items()}):
                        bad.setdefault(f"{kind} {dn}: operand", f"{where}: the left operand is changed")
        # scalars, both orders
        for dn, fn_ in (("__mul__", lambda b: b * 2.0), ("__rmul__", lambda b: 2.0 * b), ("__truediv__", lambda b: b / 2.0), ("__neg__", lambda b: -b),
                        ("__imul__", lambda b: b * 2.0), ("__itruediv__", lambda b: b / 2.0),
                        ("__radd__", lambda b: 2.0 + b), ("__rsub__", lambda b: 2.0 - b), ("__rtruediv__", lambda b: 2.0 / b), ("__pow__", lambda b: b ** 2)):
            ev = shaped_evaluator(prog)
            x = full()
            m = prog.lookup_method(x.cls, dn)
            if m is None or (kind == "array" and dn in ("__radd__", "__rsub__", "__rtruediv__", "__pow__")):
                continue
            L = dict(x.fields["_blocks"])
            n += 1
            try:
                r = ev.call(m, [] if dn == "__neg__" else [2 if dn == "__pow__" else 2.0], {}, self_obj=x)
            except Unsupported as e:
                raise AnalysisError(f"{x.cls.name}.{dn} outside the evaluable sub-language: {e}")
            except (Raised,) + PYERR:
                continue
            if r is NotImplemented:
                continue
            want = {k: repr(fn_(b).term) for k, b in L.items()}
            got = {k: repr(b.term) for k, b in r.fields["_blocks"].items()} if isinstance(r, Obj) else None
            if got != want:
                k0 = next(iter(want))
                bad.setdefault(f"{kind} {dn}: scalar", f"{kind} {dn} with a scalar: block {k0} is {None if got is None else got.get(k0)}, the dense result gives {want[k0]}")
            if dn.startswith("__i") and r is not x:
                bad.setdefault(f"{kind} {dn}: in place", f"{kind} {dn} with a scalar returns another object")
    ctx.need(n >= 60, f"R08.6: only {n} arithmetic cases evaluated")
    f = prog.cls("BlockBase").methods.get("_binary_blockwise_op") or next(iter(prog.cls("BlockBase").methods.values()))
    if not bad:
        ctx.check(True, rid, f, f.node, "arithmetic", f"every arithmetic operator of arrays and block vectors, on operands with equal, fewer and other stored "
                                                      f"sectors and with scalars in both orders, gives the block form of the dense result or raises; in-place "
                                                      f"forms return their operand ({n} evaluations)")
    for key, msg in sorted(bad.items()):
        ctx.check(False, rid, f, f.node, key, f"arithmetic operators give the block form of the dense result or raise — witness: {msg}")


def check_unary(prog, ctx):
    """elementwise / reduction methods map the function of the same name"""
    rid = "R08.4"
    bb = prog.cls("BlockBase")
    for name, f in sorted(bb.methods.items()):
        calls = [c for c in walk_own(f.node) if isinstance(c, ast.Call)
                 and src(c.func) in ("self._do_unary_op", "self._do_reduction")]
        for c in calls:
            if c.args and isinstance(c.args[0], ast.Constant):
                ctx.check(c.args[0].value == name, rid, f, c, src(c),
                          f"BlockBase.{name} applies the backend function {name!r}")


def run(prog, ctx):
    ctx.rule("R08.1", "every interface wrapper's method exists on AbelianArray and FermionicArray; a missing method behind an "
             "AttributeError fallback is a dispatch cycle")
    ctx.rule("R08.2", "invoked as a function, as the method of the same name and through autoray dispatch, every interface operation "
             "gives the same result; each is exported / registered under its own name")
    ctx.rule("R08.3", "abstract interpretation of _binary_blockwise_op over key regions: strict -> L or raise, outer -> L union R, "
             "inner -> L intersect R; values fn(l, r) on the shared region only")
    ctx.rule("R08.4", "operator dunders agree with the table (function, allowed missing mode, in-place flag, scalar operand order); "
             "unary/reduction methods apply the backend function of their own name")
    ctx.rule("R08.5", "abstract interpretation of multiply_diagonal: sectors whose axis charge the vector lacks are deleted, others scaled")
    check_interface(prog, ctx)
    check_binary_keysets(prog, ctx)
    check_multiply_diagonal(prog, ctx)
    ctx.rule("R08.6", "abstract evaluation: every arithmetic operator of arrays and block vectors (operands with equal, fewer and other stored "
             "sectors; scalars in both orders; in-place forms) gives the block form of the dense result or raises")
    check_arithmetic(prog, ctx)
    # the operator table reads the TEXT of the dunders (which function, which missing-block mode, `return self`): confidence only,
    # what the operators compute is decided by R08.6 (and R08.3 for the key sets)
    ctx.confidence(check_operators, ("R08.6", "R08.3"), "R08.4 (operator table)")
    check_unary(prog, ctx)
