"""C16 — all ways of building an array agree (partial: constructor plumbing).

R16.1  no parameter default captures a class-scope descriptor
R16.2  constructor parameters reach their resolver (no dead parameters)
R16.3  sibling agreement of the classmethod constructors
R16.4  class <-> symmetry tables agree
R16.5  canonical (sorted) charge order at the index constructors and in densification
"""

from __future__ import annotations

import ast

from engine.loader import AnalysisError, ClassInfo, FuncInfo, dotted, src, walk_own

PID = "C16"
EXPLANATION = (
    "Structural checks of the constructor plumbing over the package ASTs. (1) Scope resolution as the compiler does it: a "
    "parameter default that is a bare name bound earlier in the *class body* to a method/property is a captured descriptor, "
    "never a usable value. (2) Def-use order: a parameter whose first use is an overwrite is dead (the documented argument is "
    "ignored); the symmetry and charge parameters of each constructor must reach the class symmetry resolver / the identity "
    "default and the final cls(...) call. (3) The classmethod constructors agree on resolver call, charge default and the "
    "keywords they forward. (4) The eight fixed-symmetry subclasses, the name->class table of utils.from_dense and the "
    "dispatch chains of get_rand / rand_index agree with each other and with the symmetry registry. (5) Index constructors sort "
    "their charge tables and densification iterates sorted charges. These are necessary conditions for 'all documented call "
    "forms build the same array'; equality of the arrays' contents is not decided."
)
ASSUMPTIONS = ["the documented call forms are those of the numpydoc docstrings"]

CTORS = ("from_fill_fn", "random", "from_blocks", "from_dense")


def check_default_capture(prog, ctx):
    rid = "R16.1"
    n = 0
    for ci in prog.classes.values():
        seen = {}
        for stmt in ci.node.body:
            if isinstance(stmt, (ast.FunctionDef, ast.AsyncFunctionDef)):
                a = stmt.args
                for d in list(a.defaults) + [x for x in a.kw_defaults if x is not None]:
                    for nm in ast.walk(d):
                        if isinstance(nm, ast.Name) and isinstance(nm.ctx, ast.Load):
                            n += 1
                            if nm.id in seen:
                                f = ci.methods.get(stmt.name)
                                ctx.bad(rid, (ci.file, f"{ci.name}.{stmt.name}"), nm, f"default {nm.id}={nm.id}",
                                        f"parameter default `{nm.id}` resolves in class scope to the "
                                        f"{seen[nm.id]} `{ci.name}.{nm.id}` defined above, not to a value")
                            else:
                                ctx.ok(rid, f"{ci.file}:{ci.name}.{stmt.name}", f"default name {nm.id} is not a class-scope descriptor")
                kind = "property" if any(src(x) == "property" for x in stmt.decorator_list) else "method"
                seen[stmt.name] = kind
        # count every default expression examined
    tot = 0
    for f in prog.funcs.values():
        if f.cls is not None:
            tot += len(f.defaults())
    ctx.ok(rid, "package", f"{tot} method parameter defaults examined for class-scope capture")


def first_use_is_store(f, pname):
    """True when the first textual occurrence of the parameter in the body is an overwrite that
    does not read it."""
    events = []
    for stmt in f.node.body:
        for n in ast.walk(stmt):
            if isinstance(n, ast.Name) and n.id == pname:
                events.append((n.lineno, n.col_offset, isinstance(n.ctx, ast.Store), n))
    # parameter declaration itself is an ast.arg, not a Name
    if not events:
        return None
    events.sort(key=lambda t: (t[0], t[1]))
    first = events[0]
    if not first[2]:
        return False
    # a store: does the assigned value read the parameter?
    for s in ast.walk(f.node):
        if isinstance(s, ast.Assign) and any(t is first[3] for t in ast.walk(s)):
            loads = [x for x in ast.walk(s.value) if isinstance(x, ast.Name) and x.id == pname]
            return not loads
    return True


def check_dead_params(prog, ctx):
    rid = "R16.2"
    n = 0
    for f in sorted(prog.funcs.values(), key=lambda f: f.fq):
        if f.parent is not None:
            continue
        for p in f.all_params():
            r = first_use_is_store(f, p)
            if r is None:
                continue
            n += 1
            if r:
                ctx.bad(rid, f, f.node, f"parameter {p} overwritten before use",
                        f"parameter `{p}` is overwritten before it is ever read: the caller's argument is ignored")
    ctx.ok(rid, "package", f"{n} used parameters examined: first use is a read")


def check_ctor_flow(prog, ctx):
    """symmetry / charge reach the resolver and the final constructor call; siblings agree."""
    arr = prog.cls("AbelianArray")
    shapes = {}
    for name in CTORS:
        f = arr.methods.get(name)
        ctx.need(f is not None and f.is_classmethod, f"AbelianArray.{name} classmethod vanished")
        params = f.all_params()
        ctx.check("symmetry" in params and "charge" in params and f.node.args.kwarg is not None, "R16.3", f, f.node,
                  "signature", f"{name} accepts symmetry=, charge= and **kwargs like its siblings")
        d = f.defaults()
        for p in ("symmetry", "charge"):
            dv = d.get(p)
            ctx.check(isinstance(dv, ast.Constant) and dv.value is None, "R16.3", f, f.node, f"default of {p}",
                      f"{name}: `{p}` defaults to None (resolved from the class / the identity charge)")
        if name == "random":
            # forwards to from_fill_fn
            calls = [c for c in walk_own(f.node) if isinstance(c, ast.Call) and src(c.func) == "cls.from_fill_fn"]
            ok = len(calls) == 1
            if ok:
                c = calls[0]
                kws = {k.arg: src(k.value) for k in c.keywords}
                pos = [src(a) for a in c.args]
                ok = (kws.get("symmetry") == "symmetry" and any(k.arg is None for k in c.keywords)
                      and "charge" in pos + list(kws.values()) and "indices" in pos + list(kws.values()))
            ctx.check(ok, "R16.2", f, f.node, "random -> from_fill_fn",
                      "random forwards indices, charge, symmetry and **kwargs to from_fill_fn")
            continue
        # resolver call
        res = [c for c in walk_own(f.node) if isinstance(c, ast.Call) and src(c.func) == "cls.get_class_symmetry"]
        ok = len(res) == 1 and len(res[0].args) == 1 and src(res[0].args[0]) == "symmetry"
        ctx.check(ok, "R16.2", f, res[0] if res else f.node, src(res[0]) if res else "no resolver call",
                  f"{name}: the symmetry argument is passed to cls.get_class_symmetry(symmetry)")
        # charge default
        ifs = [n for n in walk_own(f.node) if isinstance(n, ast.If) and src(n.test) == "charge is None"]
        ok = len(ifs) == 1 and any(isinstance(s, ast.Assign) and src(s.targets[0]) == "charge"
                                   and src(s.value) == "symmetry.combine()" for s in ifs[0].body)
        ctx.check(ok, "R16.2", f, f.node, "charge default", f"{name}: charge=None resolves to symmetry.combine()")
        # final constructor call
        cc = [c for c in walk_own(f.node) if isinstance(c, ast.Call) and src(c.func) == "cls"]
        ok = len(cc) == 1
        kws = {}
        if ok:
            kws = {k.arg: src(k.value) for k in cc[0].keywords}
        need = {"indices": "indices", "charge": "charge", "symmetry": "symmetry"}
        if name != "from_fill_fn":
            need["blocks"] = "blocks"
        ok = ok and all(kws.get(k) == v for k, v in need.items()) and None in kws
        ctx.check(ok, "R16.3", f, cc[0] if cc else f.node, src(cc[0])[:100] if cc else "no cls(...) call",
                  f"{name}: builds the result as cls({', '.join(k + '=' + k for k in need)}, **kwargs)")
        shapes[name] = tuple(sorted(k for k in kws if k))
    # __init__ resolves symmetry
    init = arr.methods["__init__"]
    res = [c for c in walk_own(init.node) if isinstance(c, ast.Call) and src(c.func) == "self.get_class_symmetry"]
    ctx.check(len(res) == 1 and [src(a) for a in res[0].args] == ["symmetry"], "R16.2", init, init.node, "init resolver",
              "AbelianArray.__init__ resolves its symmetry argument through get_class_symmetry")
    fi = prog.cls("FermionicArray").methods["__init__"]
    sup = [c for c in walk_own(fi.node) if isinstance(c, ast.Call) and src(c.func) == "super().__init__"]
    ok = len(sup) == 1 and {k.arg: src(k.value) for k in sup[0].keywords} == {
        "indices": "indices", "charge": "charge", "blocks": "blocks", "symmetry": "symmetry"}
    ctx.check(ok, "R16.2", fi, fi.node, "fermionic init", "FermionicArray.__init__ forwards indices, charge, blocks, symmetry")
    # fermionic classes must not override the constructors (they inherit the checked ones)
    for c in prog.subclasses(arr, strict=True):
        for name in CTORS:
            ctx.check(name not in c.methods, "R16.3", (c.file, c.name), c.node, f"{c.name}.{name}",
                      f"{c.name} inherits {name} from AbelianArray")
    ctx.minimum("R16.2", 8, "resolver + charge default per constructor")
    ctx.minimum("R16.3", 40, "signatures, final calls, no overrides")


def check_tables(prog, ctx):
    rid = "R16.4"
    arr = prog.cls("AbelianArray")
    sym_mod = prog.module("symmray.symmetries")
    sym_base = prog.cls("Symmetry")
    sym_names = {c.name for c in prog.subclasses(sym_base, strict=True)}
    static = []
    for c in prog.subclasses(arr, strict=True):
        g = c.methods.get("get_class_symmetry")
        if g is None:
            continue
        static.append(c)
        fermionic = prog.is_subclass(c, "FermionicArray")
        suffix = "FermionicArray" if fermionic else "Array"
        sname = c.name[: -len(suffix)] if c.name.endswith(suffix) else None
        ctx.check(sname in sym_names, rid, g, g.node, f"class name {c.name}",
                  f"{c.name} is named <Symmetry>{suffix} for a registered symmetry")
        # shape: X = get_symmetry("S"); if symmetry is not None and symmetry != X: raise; return X
        body = [s for s in g.node.body if not (isinstance(s, ast.Expr) and isinstance(s.value, ast.Constant))]
        ok = (len(body) == 3 and isinstance(body[0], ast.Assign) and isinstance(body[0].value, ast.Call)
              and src(body[0].value.func) == "get_symmetry" and isinstance(body[0].value.args[0], ast.Constant)
              and body[0].value.args[0].value == sname)
        var = src(body[0].targets[0]) if ok else None
        if ok:
            t = body[1]
            ok = (isinstance(t, ast.If) and src(t.test).replace("(", "").replace(")", "")
                  == f"symmetry is not None and symmetry != {var}"
                  and len(t.body) == 1 and isinstance(t.body[0], ast.Raise) and not t.orelse)
        if ok:
            ok = isinstance(body[2], ast.Return) and src(body[2].value) == var
        ctx.check(ok, rid, g, g.node, "get_class_symmetry shape",
                  f"{c.name}.get_class_symmetry rejects a different symmetry and returns get_symmetry({sname!r})")
        ctx.check(g.is_static, rid, g, g.node, "staticmethod", f"{c.name}.get_class_symmetry is a staticmethod")
        sflag = c.attrs.get("static_symmetry")
        ctx.check(sflag is not None and src(sflag) == "True", rid, (c.file, c.name), c.node, "static_symmetry",
                  f"{c.name}.static_symmetry is True")
    ctx.need(len(static) >= 8, f"expected 8 fixed-symmetry classes, found {len(static)}")
    # generic classes: symmetry required
    g = arr.methods["get_class_symmetry"]
    body = [s for s in g.node.body]
    ok = any(isinstance(s, ast.If) and src(s.test) == "symmetry is None" and isinstance(s.body[0], ast.Raise) for s in body) \
        and any(isinstance(s, ast.Return) and src(s.value) == "get_symmetry(symmetry)" for s in body)
    ctx.check(ok, rid, g, g.node, "generic resolver", "generic classes require a symmetry and resolve it by name")
    # utils.from_dense table
    fd = prog.func("symmray.utils:from_dense")
    table = None
    for n in walk_own(fd.node):
        if isinstance(n, ast.Subscript) and isinstance(n.value, ast.Dict) and src(n.slice) in ("(symmetry, fermionic)", "symmetry, fermionic"):
            table = n.value
    ctx.need(table is not None, "utils.from_dense: (symmetry, fermionic) -> class table not found")
    seen = set()
    for k, v in zip(table.keys, table.values):
        ctx.need(isinstance(k, ast.Tuple) and len(k.elts) == 2, "utils.from_dense: unexpected key shape")
        s, fm = k.elts[0].value, k.elts[1].value
        want = f"{s}{'FermionicArray' if fm else 'Array'}"
        seen.add((s, fm))
        tgt = prog.resolve_name(fd.module, src(v))
        ctx.check(src(v) == want and isinstance(tgt, ClassInfo), rid, fd, k, f"({s!r}, {fm}) -> {src(v)}",
                  f"utils.from_dense maps ({s!r}, fermionic={fm}) to class {want}")
    for c in static:
        fermionic = prog.is_subclass(c, "FermionicArray")
        suffix = "FermionicArray" if fermionic else "Array"
        ctx.check((c.name[: -len(suffix)], fermionic) in seen, rid, fd, table, f"{c.name} missing",
                  f"utils.from_dense's table has an entry for {c.name}")
    call = [c for c in walk_own(fd.node) if isinstance(c, ast.Call) and src(c.func) == "cls.from_dense"]
    ok = len(call) == 1 and [src(a) for a in call[0].args] == ["array", "index_maps"] and \
        {k.arg: src(k.value) for k in call[0].keywords} == {"duals": "duals", "charge": "charge"}
    ctx.check(ok, rid, fd, fd.node, "forwarding", "utils.from_dense forwards array, index_maps, duals, charge")
    # get_rand / rand_index chains
    ut = prog.module("symmray.utils")
    for fname, pattern, argn in (("get_rand", "get_rand_{}array", None), ("rand_index", "rand_{}_index", None)):
        f = prog.func(f"symmray.utils:{fname}")
        for n in walk_own(f.node):
            if isinstance(n, ast.If) and isinstance(n.test, ast.Compare) and src(n.test.left) == "symmetry" \
                    and isinstance(n.test.comparators[0], ast.Constant):
                s = n.test.comparators[0].value
                want = pattern.format(s.lower())
                st = n.body[0]
                got = src(st.value.func) if isinstance(st, ast.Return) and isinstance(st.value, ast.Call) else (
                    src(st.value) if isinstance(st, ast.Assign) else None)
                ctx.check(got == want and want in ut.functions, rid, f, n, f"{s!r} -> {got}",
                          f"{fname}: symmetry {s!r} dispatches to {want}")
    for s in ("z2", "z2z2", "u1", "u1u1"):
        f = prog.func(f"symmray.utils:get_rand_{s}array")
        S = s.upper()
        ifs = [n for n in walk_own(f.node) if isinstance(n, ast.If) and src(n.test) == "fermionic"]
        ok = len(ifs) == 1 and src(ifs[0].body[0]) == f"cls = sr.{S}FermionicArray" and src(ifs[0].orelse[0]) == f"cls = sr.{S}Array"
        ctx.check(ok, rid, f, f.node, "class choice", f"get_rand_{s}array builds sr.{S}FermionicArray / sr.{S}Array")
        idx = [c for c in ast.walk(f.node) if isinstance(c, ast.Call) and src(c.func) == f"rand_{s}_index"]
        ctx.check(len(idx) == 1, rid, f, f.node, "index helper", f"get_rand_{s}array draws indices with rand_{s}_index")
    ctx.minimum(rid, 50, "8 classes x 4 + 8 table rows + chains")


def check_sorted(prog, ctx):
    """R16.5: index constructors canonicalise (sort) the charge table - decided by abstract evaluation of
    BlockIndex.__init__ / copy_with on unsorted tables; densification iterates sorted charges."""
    from engine.minieval import Evaluator, Obj, Raised, Unsupported

    rid = "R16.5"
    bi = prog.cls("BlockIndex")
    init = bi.methods["__init__"]
    cw = bi.methods["copy_with"]
    unsorted = {2: 1, -1: 3, 0: 2, 1: 1}
    bad = None
    try:
        for given in (dict(unsorted), list(unsorted.items()), tuple(unsorted.items())):
            ev = Evaluator(prog)
            ix = ev.apply(bi, [given], {"dual": True}, init)
            cm = ix.fields.get("_chargemap")
            if not isinstance(cm, dict) or list(cm) != sorted(unsorted) or cm != unsorted:
                bad = bad or f"BlockIndex({type(given).__name__}) stores charge table {cm}"
            if ix.fields.get("_dual") is not True:
                bad = bad or "BlockIndex(..., dual=True) does not store the direction"
        ev = Evaluator(prog)
        base = ev.apply(bi, [{0: 1}], {}, init)
        for given in (dict(unsorted), list(unsorted.items())):
            new = ev.call(cw, [], {"chargemap": given}, self_obj=base)
            cm = new.fields.get("_chargemap")
            if list(cm) != sorted(unsorted) or cm != unsorted:
                bad = bad or f"copy_with(chargemap={type(given).__name__}) stores {cm}"
        same = ev.call(cw, [], {}, self_obj=base)
        if same.fields.get("_chargemap") != {0: 1} or same.fields.get("_chargemap") is base.fields.get("_chargemap"):
            bad = bad or "copy_with() without a table must carry a copy of the old (sorted) table"
    except Unsupported as e:
        raise AnalysisError(f"BlockIndex constructor outside the evaluable sub-language: {e}")
    except (Raised, KeyError, TypeError) as e:
        bad = bad or f"{type(e).__name__}: {getattr(e, 'what', e)}"
    ctx.check(bad is None, rid, init, init.node, "sorted charge tables",
              "BlockIndex.__init__ and copy_with store an externally supplied charge table (dict or pairs) sorted by charge"
              + ("" if bad is None else f" — witness: {bad}"))
    td = prog.func("symmray.abelian_core:AbelianArray.to_dense")
    loops = [n for n in ast.walk(td.node) if isinstance(n, (ast.comprehension, ast.For)) and "charges" in src(n.iter)]
    ctx.check(len(loops) == 1 and src(loops[0].iter).startswith("sorted("), rid, td, td.node, "charge iteration",
              "to_dense concatenates charge blocks in sorted charge order")
    fdn = prog.func("symmray.abelian_core:AbelianArray.from_dense")
    idx = [c for c in ast.walk(fdn.node) if isinstance(c, ast.Call) and src(c.func) == "BlockIndex"]
    ctx.check(len(idx) == 1, rid, fdn, fdn.node, "index construction",
              "from_dense builds its indices through the (sorting) BlockIndex constructor")
    ctx.minimum(rid, 3, "constructors, to_dense, from_dense")


def run(prog, ctx):
    ctx.rule("R16.1", "no parameter default is a bare name bound in the enclosing class body to a method or property")
    ctx.rule("R16.2", "no parameter is overwritten before it is read; symmetry and charge reach the resolver / identity default")
    ctx.rule("R16.3", "from_fill_fn, random, from_blocks, from_dense agree on signature defaults, resolver call and forwarded keywords")
    ctx.rule("R16.4", "fixed-symmetry classes, utils.from_dense's table and the get_rand / rand_index chains agree with the registry")
    ctx.rule("R16.5", "index constructors sort the charge table; to_dense iterates sorted charges")
    ctx.rule("R16.6", "abstract evaluation: from_blocks (generic class with a symmetry object / name, fixed-symmetry class, charge omitted when "
                      "identity), from_fill_fn and random build the array the direct constructor builds from the same description")
    ctx.rule("R16.7", "abstract evaluation: to_dense then from_dense with the matching labels is the identity on blocks; from_dense with "
                      "interleaved labels then to_dense is the projection onto the charge-conserving sectors reordered by charge")
    from rules.sem_ctor import check_constructors

    ctx.guarded("R16.6", prog.func("symmray.abelian_core:AbelianArray.from_blocks"), check_constructors, prog, ctx)
    check_default_capture(prog, ctx)
    check_dead_params(prog, ctx)
    # check_ctor_flow and check_sorted read the TEXT of the constructors / of to_dense.  The signature facts (symmetry=, charge=, **kwargs,
    # None defaults, no overrides in subclasses) are public interface and stay hard.  The form facts (the resolver is called as
    # cls.get_class_symmetry(symmetry), the default is written `if charge is None: charge = symmetry.combine()`, one cls(...) call, a
    # sorted(...) loop in to_dense) can only add confidence: what the constructors and the dense conversion do is decided by R16.6 / R16.7.
    ctx.confidence(check_ctor_flow, ("R16.6", "R16.7"), "R16.2/R16.3",
                   hard=lambda f_: f_.construct.startswith(("signature", "default of ")) or f_.message.endswith("from AbelianArray"))
    ctx.rule("R16.8", "abstract evaluation: utils.from_dense builds the class named <Symmetry>[Fermionic]Array for every (symmetry, fermionic); "
                      "each fixed-symmetry class resolves to its own symmetry and refuses another")
    from rules.sem_ctor import check_class_tables

    ctx.guarded("R16.8", prog.func("symmray.utils:from_dense"), check_class_tables, prog, ctx)
    # check_tables extracts literal tables and if-chains from the TEXT (class naming and static_symmetry flags stay hard: interface facts)
    ctx.confidence(check_tables, ("R16.8", "R16.6"), "R16.4",
                   hard=lambda f_: f_.construct.startswith(("class name", "staticmethod", "static_symmetry")))
    ctx.confidence(check_sorted, ("R16.6", "R16.7"), "R16.5")
