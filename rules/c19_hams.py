"""C19 — edge-wise Hamiltonians add up to the lattice Hamiltonian (partial: the over-counting guard).

R19.1  on-site terms are divided by the coordination of *their* site; two-site terms are not divided
R19.2  coordination counting and (a, b) ordering in the from_edges builders
R19.3  edge / node coefficient factories
R19.4  site information derived from edges
"""

from __future__ import annotations

import ast

from engine.loader import AnalysisError, src, walk_own

PID = "C19"
EXPLANATION = (
    "(1) R19.1, symbolic coefficient analysis of the local-operator builders: each builder's body is interpreted with symbolic "
    "parameters (t, V, mu_a, mu_b, U_a, U_b, z_a, z_b ...), local re-bindings included, so that every term's coefficient becomes a "
    "normalised product/quotient of symbols; each operator is assigned a site by provenance (FermionicOperator labels). A term whose "
    "operators all belong to site k must carry +-X_k / z_k with X that site's coefficient; a two-site term must not be divided. A "
    "refactor that pre-scales the parameters correctly is accepted, one that pre-scales with the wrong coordination is not. (2) "
    "R19.2-R19.4, abstract evaluation of the from_edges builders, the edge / node factories and the site description on small graphs "
    "(path, star, triangle, paw, square, single edge; integer, string and tuple site names) with the local builder replaced by a recorder: "
    "every edge's builder receives (degree of a, degree of b) and the per-site values in the edge's own (a, b) order; dict-valued "
    "parameters are looked up by (a, b) then (b, a); every bond gets one index name with directions 0 / 1 on its two sorted ends and "
    "the coordination excludes the physical index. These are the mechanisms that make each on-site term total exactly its coefficient "
    "whatever the degree sequence; the operator matrices themselves (C18) are not decided here."
)
ASSUMPTIONS = ["edges is a list of distinct pairs (simple graph)"]

BUILDERS = {
    "symmray.fermionic_local_operators:fermi_hubbard_spinless_local_array": "terms",
    "symmray.fermionic_local_operators:fermi_hubbard_local_array": "terms",
}


def _op_sites(ctx, f):
    """operator variable -> site index, from `a, b = map(FermionicOperator, "ab")` / `au = FermionicOperator("au")`"""
    out = {}
    for a in walk_own(f.node):
        if not isinstance(a, ast.Assign):
            continue
        v = a.value
        if isinstance(v, ast.Call) and src(v.func) == "FermionicOperator" and isinstance(a.targets[0], ast.Name) \
                and v.args and isinstance(v.args[0], ast.Constant):
            out[a.targets[0].id] = v.args[0].value
        elif isinstance(v, ast.Call) and src(v.func) == "map" and src(v.args[0]) == "FermionicOperator" \
                and isinstance(a.targets[0], ast.Tuple) and isinstance(v.args[1], ast.Constant):
            for t, lab in zip(a.targets[0].elts, v.args[1].value):
                out[src(t)] = lab
    labels = sorted({l[0] for l in out.values()})
    ctx.need(len(labels) == 2, f"{f.qualname}: expected operators of two sites, labels {sorted(out.values())}")
    return {name: labels.index(lab[0]) for name, lab in out.items()}


def _coef_sites(f):
    """coefficient variable -> site index from `xa, xb = x` / `xa = xb = x`"""
    out = {}
    for a in ast.walk(f.node):
        if isinstance(a, ast.Assign) and isinstance(a.targets[0], ast.Tuple) and len(a.targets[0].elts) == 2 \
                and isinstance(a.value, ast.Name):
            for i, t in enumerate(a.targets[0].elts):
                out[src(t)] = (i, a.value.id)
    return out



class Sym:
    """sign * base / prod(coordinations[k] for k in divs); base = (parameter, component) or an opaque source string"""

    def __init__(self, base, divs=(), sign=1, opaque=False):
        self.base, self.divs, self.sign, self.opaque = base, tuple(sorted(divs)), sign, opaque

    def key(self):
        return (self.base, self.divs, self.sign, self.opaque)

    def __repr__(self):
        b = f"{self.base[0]}[{self.base[1]}]" if isinstance(self.base, tuple) else str(self.base)
        return ("-" if self.sign < 0 else "") + b + "".join(f"/coordinations[{k}]" for k in self.divs)


def symbolic_env(f, upto):
    """forward symbolic evaluation of the straight-line assignments of f before statement `upto`:
    variable -> set of Sym (alternatives from try/except and if/else are united)"""
    env = {}
    for p in f.all_params():
        env[p] = {Sym((p, None)).key(): Sym((p, None))}

    def ev(e):
        if isinstance(e, ast.Name):
            return list(env.get(e.id, {src(e): Sym(src(e), opaque=True)}).values())
        if isinstance(e, ast.UnaryOp) and isinstance(e.op, ast.USub):
            return [Sym(v.base, v.divs, -v.sign, v.opaque) for v in ev(e.operand)]
        if isinstance(e, ast.Subscript) and isinstance(e.value, ast.Name) and isinstance(e.slice, ast.Constant):
            out = []
            for v in ev(e.value):
                if isinstance(v.base, tuple) and v.base[1] is None and not v.divs:
                    out.append(Sym((v.base[0], e.slice.value), (), v.sign))
                else:
                    out.append(Sym(src(e), opaque=True))
            return out
        if isinstance(e, ast.BinOp) and isinstance(e.op, ast.Div):
            out = []
            for n in ev(e.left):
                for d in ev(e.right):
                    if isinstance(d.base, tuple) and d.base[0] == "coordinations" and d.base[1] is not None and not d.divs \
                            and d.sign == 1 and not n.opaque:
                        out.append(Sym(n.base, n.divs + (d.base[1],), n.sign))
                    else:
                        out.append(Sym(src(e), opaque=True))
            return out
        return [Sym(src(e), opaque=True)]

    def assign(t, vals):
        if isinstance(t, ast.Name):
            env[t.id] = {v.key(): v for v in vals}

    def run(stmts, merge):
        for st in stmts:
            if st is upto:
                return True
            if isinstance(st, ast.Assign):
                for t in st.targets:
                    if isinstance(t, ast.Tuple) and isinstance(st.value, ast.Tuple) and len(t.elts) == len(st.value.elts):
                        vals = [ev(x) for x in st.value.elts]
                        for tt, vv in zip(t.elts, vals):
                            assign(tt, vv)
                    elif isinstance(t, ast.Tuple):
                        whole = ev(st.value)
                        for i, tt in enumerate(t.elts):
                            comp = []
                            for v in whole:
                                if isinstance(v.base, tuple) and v.base[1] is None and not v.divs:
                                    comp.append(Sym((v.base[0], i), (), v.sign))
                                else:
                                    comp.append(Sym(f"{src(st.value)}[{i}]", opaque=True))
                            assign(tt, comp)
                    else:
                        assign(t, ev(st.value))
            elif isinstance(st, ast.Try):
                before = {k: dict(v) for k, v in env.items()}
                if run(st.body, merge):
                    return True
                after_body = {k: dict(v) for k, v in env.items()}
                for h in st.handlers:
                    env.clear()
                    env.update({k: dict(v) for k, v in before.items()})
                    run(h.body, merge)
                    for k, v in env.items():
                        after_body.setdefault(k, {}).update(v)
                env.clear()
                env.update(after_body)
            elif isinstance(st, ast.If):
                before = {k: dict(v) for k, v in env.items()}
                run(st.body, merge)
                a = {k: dict(v) for k, v in env.items()}
                env.clear()
                env.update(before)
                run(st.orelse, merge)
                for k, v in a.items():
                    env.setdefault(k, {}).update(v)
        return False

    run(f.node.body, True)
    return ev


class _Op:
    """a symbolic dense operator: linear combination of Kronecker products of named one-site matrices"""

    _abstract = True

    def __init__(self, terms):
        self.terms = dict(terms)

    def __and__(self, o):
        return _Op({ka + kb: ca * cb for ka, ca in self.terms.items() for kb, cb in o.terms.items()})

    def __mul__(self, o):
        if isinstance(o, _Op):
            return NotImplemented
        return _Op({k: c * o for k, c in self.terms.items()})

    __rmul__ = __mul__

    def __truediv__(self, o):
        return _Op({k: c / o for k, c in self.terms.items()})

    def __neg__(self):
        return _Op({k: -c for k, c in self.terms.items()})

    def __add__(self, o):
        if not isinstance(o, _Op):
            return NotImplemented
        out = dict(self.terms)
        for k, c in o.terms.items():
            if k in out:
                if not (isinstance(out[k], Q) and isinstance(c, Q) and out[k].syms == c.syms):
                    raise TypeError("sum of unlike symbolic coefficients on one Kronecker product")
                out[k] = Q(out[k].c + c.c, out[k].syms)
            else:
                out[k] = c
        return _Op(out)

    def __sub__(self, o):
        return self + (-o)

    def reshape(self, *shape):
        return self

    def astype(self, *a, **k):
        return self


class Q:
    """symbolic monomial  c * prod(symbol ** exponent)  (coefficients of Hamiltonian terms are products / quotients of parameters)"""

    _abstract = True

    def __init__(self, c=1, syms=None):
        from fractions import Fraction

        self.c = Fraction(c)
        self.syms = {k: v for k, v in (syms or {}).items() if v != 0}

    @staticmethod
    def of(name):
        return Q(1, {name: 1})

    def _lift(self, o):
        from fractions import Fraction

        if isinstance(o, Q):
            return o
        if isinstance(o, (int, float)) and not isinstance(o, bool):
            return Q(Fraction(o).limit_denominator(10**6))
        raise TypeError(f"unsupported operand {type(o).__name__} for a symbolic coefficient")

    def __mul__(self, o):
        if isinstance(o, _Op):
            return NotImplemented
        o = self._lift(o)
        syms = dict(self.syms)
        for k, v in o.syms.items():
            syms[k] = syms.get(k, 0) + v
        return Q(self.c * o.c, syms)

    __rmul__ = __mul__

    def __truediv__(self, o):
        o = self._lift(o)
        return self * Q(1 / o.c, {k: -v for k, v in o.syms.items()})

    def __rtruediv__(self, o):
        return self._lift(o) / self

    def __neg__(self):
        return Q(-self.c, self.syms)

    def __pos__(self):
        return self

    def __add__(self, o):
        raise TypeError("sums of symbolic coefficients are outside the rule (a term's coefficient is expected to be a monomial)")

    __radd__ = __sub__ = __rsub__ = __add__

    def __eq__(self, o):
        if isinstance(o, (int, float)) and not self.syms:
            return self.c == o
        return isinstance(o, Q) and (self.c, self.syms) == (o.c, o.syms)

    def __ne__(self, o):
        return not self.__eq__(o)

    def __hash__(self):
        return hash((self.c, tuple(sorted(self.syms.items()))))

    def __repr__(self):
        num = [k if v == 1 else f"{k}^{v}" for k, v in sorted(self.syms.items()) if v > 0]
        den = [k if v == -1 else f"{k}^{-v}" for k, v in sorted(self.syms.items()) if v < 0]
        s_ = ("-" if self.c < 0 else "") + (str(abs(self.c)) if abs(self.c) != 1 or not num else "") + "*".join(num)
        return s_ + ("/" + "/".join(den) if den else "")


def check_terms(prog, ctx):
    """R19.1 by abstract evaluation: each local builder is evaluated with symbolic parameters (per-site pairs, and scalars, which the
    builder must broadcast) and symbolic coordinations; the list of (coefficient, operators) it hands to build_local_fermionic_array
    is recorded; every operator is assigned the site in whose basis it occurs."""
    from engine.absarray import evaluator
    from engine.minieval import Obj, Raised, Unsupported

    rid = "R19.1"
    for fq in BUILDERS:
        f = prog.func(fq)
        params = f.all_params()
        n_onsite = 0
        for variant in ("per-site", "scalar"):
            rec = {}

            def recorder(terms, bases, *a, _rec=rec, **kw):
                _rec["terms"], _rec["bases"] = list(terms), bases
                return ("array",)

            kw = {"coordinations": (Q.of("z0"), Q.of("z1"))}
            site_syms = {0: set(), 1: set()}
            for p_ in params:
                if p_ in ("t", "V"):
                    kw[p_] = Q.of(p_)
                elif p_ in ("U", "mu"):
                    if variant == "per-site":
                        kw[p_] = (Q.of(p_ + "0"), Q.of(p_ + "1"))
                        site_syms[0].add(p_ + "0")
                        site_syms[1].add(p_ + "1")
                    else:
                        kw[p_] = Q.of(p_)
                        site_syms[0].add(p_)
                        site_syms[1].add(p_)
            ev = evaluator(prog, extra={"build_local_fermionic_array": recorder})
            try:
                ev.call(f, ["Z2"], kw)
            except Unsupported as e:
                raise AnalysisError(f"{f.qualname} outside the evaluable sub-language: {e}")
            except (Raised, KeyError, TypeError, AttributeError, ValueError, IndexError) as e:
                ctx.check(False, rid, f, f.node, f"{variant}: fails", f"{f.qualname} ({variant} parameters) fails: {type(e).__name__}: {getattr(e, 'what', e)}")
                continue
            ctx.need("terms" in rec, f"{f.qualname}: build_local_fermionic_array is never reached")
            # site of an operator = the basis in which its label occurs
            site_of = {}
            for k, basis in enumerate(rec["bases"]):
                for state in basis:
                    for op in state:
                        site_of[repr(op.fields.get("_label"))] = k
            for (coeff, ops) in rec["terms"]:
                sites = {site_of.get(repr(o.fields.get("_label"))) for o in ops}
                ctx.need(None not in sites, f"{f.qualname}: a term uses an operator that occurs in no basis")
                label = f"{variant}: {coeff!r} x {[(o.fields.get('_label'), '+' if o.fields.get('_dual') else '-') for o in ops]}"
                if not isinstance(coeff, Q):
                    ctx.check(False, rid, f, f.node, label[:90], f"{f.qualname}: coefficient {coeff!r} is not built from the parameters")
                    continue
                zs = {k_: v for k_, v in coeff.syms.items() if k_ in ("z0", "z1")}
                rest = {k_: v for k_, v in coeff.syms.items() if k_ not in ("z0", "z1")}
                if len(sites) == 1:
                    k = next(iter(sites))
                    n_onsite += 1
                    ok = abs(coeff.c) == 1 and zs == {f"z{k}": -1} and len(rest) == 1 and list(rest.values()) == [1] and set(rest) <= site_syms[k]
                    ctx.check(ok, rid, f, f.node, label[:90],
                              f"{f.qualname} ({variant}): on-site term on site {k} has coefficient {coeff!r}: "
                              + ("that site's coefficient divided once by that site's coordination" if ok else
                                 f"expected +-X{k} / z{k} with X{k} one of {sorted(site_syms[k])}"))
                else:
                    ok = not zs
                    ctx.check(ok, rid, f, f.node, label[:90], f"{f.qualname} ({variant}): two-site term with coefficient {coeff!r} is not divided by a coordination")
        ctx.need(n_onsite >= 4, f"{f.qualname}: fewer than two on-site terms per variant found")
        d = f.defaults().get("coordinations")
        ctx.check(d is not None and src(d) == "(1, 1)", rid, f, f.node, "default coordinations", "coordinations default to (1, 1) (a single bond)")
    # TFIM (dense builder): evaluated with a symbolic stand-in for quimb's Pauli matrices; the dense operator handed to from_dense
    # is recorded as a linear combination of Kronecker products
    f = prog.func("symmray.hamiltonians:tfim_local_array")
    for variant in ("per-site", "scalar", "default coordinations"):
        rec = {}

        def recorder(dense, *a, _rec=rec, **kw):
            _rec["dense"] = dense
            return ("array",)

        kw = {"jx": Q.of("jx"), "hz": (Q.of("hz0"), Q.of("hz1")) if variant != "scalar" else Q.of("hz")}
        if variant != "default coordinations":
            kw["coordinations"] = (Q.of("z0"), Q.of("z1"))
        ev = evaluator(prog, extra={"from_dense": recorder, "qu.pauli": lambda s_, **k: _Op({(str(s_).upper(),): Q(1)}),
                                    "quimb.pauli": lambda s_, **k: _Op({(str(s_).upper(),): Q(1)})})
        try:
            ev.call(f, ["Z2"], kw)
        except Unsupported as e:
            raise AnalysisError(f"{f.qualname} outside the evaluable sub-language: {e}")
        except (Raised, KeyError, TypeError, AttributeError, ValueError, IndexError) as e:
            ctx.check(False, rid, f, f.node, f"tfim {variant}: fails", f"{f.qualname} ({variant}) fails: {type(e).__name__}: {getattr(e, 'what', e)}")
            continue
        dense = rec.get("dense")
        ctx.need(isinstance(dense, _Op), "tfim_local_array: no dense operator handed to from_dense")
        h = ("hz0", "hz1") if variant != "scalar" else ("hz", "hz")
        z = ("z0", "z1") if variant != "default coordinations" else (None, None)
        want = {("X", "X"): Q.of("jx"),
                ("Z", "I"): Q.of(h[0]) / (Q.of(z[0]) if z[0] else 1),
                ("I", "Z"): Q.of(h[1]) / (Q.of(z[1]) if z[1] else 1)}
        got = {k: v for k, v in dense.terms.items() if v != 0}
        for k in sorted(set(want) | set(got)):
            what = "coupling X X with coefficient jx (not divided by a coordination)" if k == ("X", "X") else \
                f"single-site field {' '.join(k)}: that site's field divided once by that site's coordination"
            ctx.check(got.get(k) == want.get(k), rid, f, f.node, f"tfim {variant}: {' '.join(k)}",
                      f"{f.qualname} ({variant}): {what}" + ("" if got.get(k) == want.get(k) else f" — got {got.get(k)!r}, expected {want.get(k)!r}"))
    ctx.minimum(rid, 14, "spinless 5 terms, spinful 10 terms, tfim 3")


GRAPHS = {
    "path3": [(0, 1), (1, 2)],
    "star4": [("c", "x"), ("c", "y"), ("c", "z")],
    "triangle": [(0, 1), (1, 2), (0, 2)],
    "paw": [((0, 0), (0, 1)), ((0, 1), (1, 1)), ((1, 1), (0, 0)), ((1, 1), (2, 2))],
    "square": [(0, 1), (1, 2), (2, 3), (3, 0)],
    "single": [("a", "b")],
}


def _degrees(edges):
    d = {}
    for a, b in edges:
        d[a] = d.get(a, 0) + 1
        d[b] = d.get(b, 0) + 1
    return d


def check_builders(prog, ctx):
    """R19.2 by abstract evaluation: the from_edges builders are evaluated (checker's evaluator) on small graphs with the
    local builder replaced by a recorder; what each edge's local term receives must be the degrees and per-site /
    per-edge coefficients of that edge, in edge order."""
    from engine.minieval import Evaluator, Raised, Unsupported

    rid = "R19.2"
    specs = {
        "ham_tfim_from_edges": ("tfim_local_array", {"jx": "edge", "hz": "node"}),
        "ham_fermi_hubbard_from_edges": ("fermi_hubbard_local_array", {"t": "edge", "U": "node", "mu": "node"}),
        "ham_fermi_hubbard_spinless_from_edges": ("fermi_hubbard_spinless_local_array", {"t": "edge", "V": "edge", "mu": "node"}),
    }
    for fname, (local, roles) in specs.items():
        f = prog.func(f"symmray.hamiltonians:{fname}")
        bad = None
        n = 0
        for gname, edges in GRAPHS.items():
            deg = _degrees(edges)
            for variant in ("scalar", "dict", "dict-reversed", "callable"):
                calls = []

                def recorder(*args, _calls=calls, **kwargs):
                    _calls.append((args, kwargs))
                    return ("term", len(_calls))

                kwargs = {}
                expect_edge = {}
                expect_node = {}
                for pname, role in roles.items():
                    if role == "edge":
                        if variant == "scalar":
                            kwargs[pname] = 1.5
                            expect_edge[pname] = {e: 1.5 for e in edges}
                        elif variant in ("dict", "dict-reversed"):
                            vals = {e: 10.0 + i for i, e in enumerate(edges)}
                            kwargs[pname] = {(e if variant == "dict" else (e[1], e[0])): v for e, v in vals.items()}
                            expect_edge[pname] = vals
                        else:
                            fn = lambda a, b: ("edgeval", a, b)  # noqa: E731
                            kwargs[pname] = fn
                            expect_edge[pname] = {e: ("edgeval", e[0], e[1]) for e in edges}
                    else:
                        if variant == "scalar":
                            kwargs[pname] = 0.25
                            expect_node[pname] = {s_: 0.25 for s_ in deg}
                        elif variant in ("dict", "dict-reversed"):
                            vals = {s_: 100.0 + i for i, s_ in enumerate(deg)}
                            kwargs[pname] = dict(vals)
                            expect_node[pname] = vals
                        else:
                            fn = lambda a: ("nodeval", a)  # noqa: E731
                            kwargs[pname] = fn
                            expect_node[pname] = {s_: ("nodeval", s_) for s_ in deg}
                ev = Evaluator(prog, stubs={local: recorder}, max_steps=200000)
                try:
                    res = ev.call(f, ["Z2", list(edges)], kwargs)
                except Unsupported as e:
                    raise AnalysisError(f"{fname} outside the evaluable sub-language: {e}")
                except (Raised, KeyError) as e:
                    bad = bad or f"{gname}/{variant}: {type(e).__name__}: {getattr(e, 'what', e)}"
                    continue
                n += 1
                if list(res) != list(edges) or len(calls) != len(edges):
                    bad = bad or f"{gname}/{variant}: result keys {list(res)} != edges {edges}"
                    continue
                for e, (args, kw) in zip(edges, calls):
                    if kw.get("coordinations") != (deg[e[0]], deg[e[1]]):
                        bad = bad or (f"{gname}: edge {e} receives coordinations {kw.get('coordinations')}, "
                                      f"the degrees of its ends are {(deg[e[0]], deg[e[1]])}")
                    for pname, role in roles.items():
                        if role == "edge" and kw.get(pname) != expect_edge[pname][e]:
                            bad = bad or f"{gname}/{variant}: edge {e} receives {pname}={kw.get(pname)}, expected {expect_edge[pname][e]}"
                        if role == "node" and kw.get(pname) != (expect_node[pname][e[0]], expect_node[pname][e[1]]):
                            bad = bad or (f"{gname}/{variant}: edge {e} receives {pname}={kw.get(pname)}, expected "
                                          f"{(expect_node[pname][e[0]], expect_node[pname][e[1]])}")
        ctx.check(bad is None, rid, f, f.node, f"{fname} wiring",
                  f"{fname}: every edge's local term receives (degree of first end, degree of second end) and its own per-edge / "
                  f"per-site coefficients in edge order ({n} graph x coefficient-form combinations)" + ("" if bad is None else f" — witness: {bad}"))
    ctx.minimum(rid, 3, "three builders")


def check_factories(prog, ctx):
    from engine.minieval import Evaluator, Raised, Unsupported

    rid = "R19.3"
    f = prog.func("symmray.hamiltonians:make_edge_factory")
    g = prog.func("symmray.hamiltonians:make_node_factory")
    bad = None
    try:
        ev = Evaluator(prog)
        fac = ev.call(f, [{("a", "b"): 1.0, ("c", "b"): 2.0}])
        for (args, want) in ((("a", "b"), 1.0), (("b", "a"), 1.0), (("b", "c"), 2.0), (("c", "b"), 2.0)):
            got = ev.apply(fac, list(args), {}, f)
            if got != want:
                bad = bad or f"dict coefficient: factory{args} = {got}, expected {want}"
        fn = lambda a, b: ("v", a, b)  # noqa: E731
        fac = ev.call(f, [fn])
        if ev.apply(fac, ["x", "y"], {}, f) != ("v", "x", "y"):
            bad = bad or "a callable coefficient is not used as is"
        fac = ev.call(f, [3.5])
        if ev.apply(fac, ["x", "y"], {}, f) != 3.5:
            bad = bad or "a scalar coefficient is not returned for every edge"
    except (Unsupported,) as e:
        raise AnalysisError(f"make_edge_factory outside the evaluable sub-language: {e}")
    except (Raised, KeyError) as e:
        bad = bad or f"{type(e).__name__}: {getattr(e, 'what', e)}"
    ctx.check(bad is None, rid, f, f.node, "edge factory",
              "edge coefficients: a dict is looked up as (a, b) then (b, a); a callable is used as is; a scalar applies to every edge"
              + ("" if bad is None else f" — witness: {bad}"))
    bad = None
    try:
        ev = Evaluator(prog)
        fac = ev.call(g, [{"a": 1.0, "b": 2.0}])
        if ev.apply(fac, ["a"], {}, g) != 1.0 or ev.apply(fac, ["b"], {}, g) != 2.0:
            bad = "dict of site coefficients not looked up by site"
        fn = lambda a: ("n", a)  # noqa: E731
        if ev.apply(ev.call(g, [fn]), ["q"], {}, g) != ("n", "q"):
            bad = bad or "callable site coefficient not used as is"
        if ev.apply(ev.call(g, [0.5]), ["q"], {}, g) != 0.5:
            bad = bad or "scalar site coefficient not returned for every site"
    except Unsupported as e:
        raise AnalysisError(f"make_node_factory outside the evaluable sub-language: {e}")
    except (Raised, KeyError) as e:
        bad = bad or f"{type(e).__name__}: {getattr(e, 'what', e)}"
    ctx.check(bad is None, rid, g, g.node, "node factory", "site coefficients: dict by site, callable as is, scalar for every site"
              + ("" if bad is None else f" — witness: {bad}"))
    ctx.minimum(rid, 2, "edge and node factories")


def check_siteinfo(prog, ctx):
    from engine.minieval import Evaluator, Raised, Unsupported

    rid = "R19.4"
    f = prog.func("symmray.networks:parse_edges_to_site_info")
    bad = None
    n = 0
    for gname, edges in GRAPHS.items():
        for shuffled in (edges, list(reversed(edges)), [(b, a) for a, b in edges]):
            for phys in (2, None):
                ev = Evaluator(prog, max_steps=200000)
                try:
                    res = ev.call(f, [list(shuffled), 3], {"phys_dim": phys})
                except Unsupported as e:
                    raise AnalysisError(f"parse_edges_to_site_info outside the evaluable sub-language: {e}")
                except (Raised, KeyError) as e:
                    bad = bad or f"{gname}: {type(e).__name__}: {getattr(e, 'what', e)}"
                    continue
                n += 1
                deg = _degrees(edges)
                if set(res) != set(deg):
                    bad = bad or f"{gname}: sites {sorted(map(str, res))} != {sorted(map(str, deg))}"
                    continue
                where = {}
                for s_, info in res.items():
                    nb = deg[s_]
                    if info.get("coordination") != nb:
                        bad = bad or f"{gname}: site {s_} has coordination {info.get('coordination')}, degree is {nb}"
                    exp_len = nb + (1 if phys is not None else 0)
                    if not (len(info["inds"]) == len(info["duals"]) == len(info["shape"]) == exp_len):
                        bad = bad or f"{gname}: site {s_} has {len(info['inds'])} indices, {len(info['duals'])} duals, expected {exp_len}"
                    if list(info["shape"][:nb]) != [3] * nb or (phys is not None and info["shape"][-1] != phys):
                        bad = bad or f"{gname}: site {s_} shape {info['shape']}"
                    if phys is not None and info["duals"][-1] != 0:
                        bad = bad or f"{gname}: physical index of {s_} is dual"
                    for ind, dual in list(zip(info["inds"], info["duals"]))[:nb]:
                        where.setdefault(ind, []).append((s_, dual))
                if len(where) != len(edges):
                    bad = bad or f"{gname}: {len(where)} bond names for {len(edges)} bonds"
                for ind, ends in where.items():
                    if len(ends) != 2 or sorted(d for _, d in ends) != [0, 1]:
                        bad = bad or f"{gname}: bond {ind} appears at {ends} (must be two ends with directions 0 and 1)"
                    elif {frozenset((ends[0][0], ends[1][0]))} - {frozenset(e) for e in edges}:
                        bad = bad or f"{gname}: bond {ind} joins {ends}, which is not an edge"
                    else:
                        lo = [s_ for s_, d in ends if d == 0][0]
                        hi = [s_ for s_, d in ends if d == 1][0]
                        if not lo < hi:
                            bad = bad or f"{gname}: bond {ind}: the non-dual end {lo} is not the smaller site"
        # canonical: independent of edge order / orientation
    ctx.check(bad is None, rid, f, f.node, "site info",
              f"each bond has one index name on exactly two sites with directions 0 (smaller site) / 1, coordination = degree, taken "
              f"before the physical index; independent of edge order and orientation ({n} evaluations)" + ("" if bad is None else f" — witness: {bad}"))
    ctx.minimum(rid, 1, "site info")


def run(prog, ctx):
    ctx.rule("R19.1", "in each local builder an on-site term of site k has coefficient +-X_k / coordinations[k]; two-site terms are not divided")
    ctx.rule("R19.2", "from_edges builders count both ends of every edge once before use and pass coordinations and per-site values in edge order")
    ctx.rule("R19.3", "edge factory: dict by (a,b) then (b,a), callable as is, scalar constant; node factory: dict by site")
    ctx.rule("R19.4", "site info: sorted, oriented edges; shared index name; duals 0/1; coordination before the physical index")
    check_terms(prog, ctx)
    check_builders(prog, ctx)
    check_factories(prog, ctx)
    check_siteinfo(prog, ctx)
