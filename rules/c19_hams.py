"""C19 — edge-wise Hamiltonians add up to the lattice Hamiltonian (partial: the over-counting guard).

R19.1  on-site terms are divided by the coordination of *their* site; two-site terms are not divided
R19.2  coordination counting and (a, b) ordering in the from_edges builders
R19.3  edge / node coefficient factories
R19.4  site information derived from edges
"""

from __future__ import annotations

import ast

from engine.loader import AnalysisError, src, walk_own

PID = "C19"
EXPLANATION = (
    "Provenance analysis of the literal term lists of the local-operator builders and structural checks of the from_edges "
    "builders. Each operator name is assigned a site by provenance (a, au, ad -> first site; b, bu, bd -> second site; from the "
    "FermionicOperator labels), each coefficient name a site by the position in its tuple-unpack (mua, mub = mu). A term whose "
    "operators all belong to one site k must carry the coefficient +-X / coordinations[k] with X that site's coefficient; a "
    "two-site term must not be divided. In every ham_*_from_edges builder the coordination dict is incremented once for each "
    "end of each edge before use, and the local builder receives (coordinations[cooa], coordinations[coob]) and the per-site "
    "factories in the same (a, b) order as the edge key. The edge factory looks up (a, b) then (b, a). The site description "
    "gives each sorted edge one index name on both ends with directions 0 / 1, and coordination = number of bond indices "
    "(assigned before the physical index is appended). These are the mechanisms that make each on-site term total exactly its "
    "coefficient whatever the degree sequence; the operator matrices themselves (C18) are not decided here."
)
ASSUMPTIONS = ["edges is a list of distinct pairs (simple graph)"]

BUILDERS = {
    "symmray.fermionic_local_operators:fermi_hubbard_spinless_local_array": "terms",
    "symmray.fermionic_local_operators:fermi_hubbard_local_array": "terms",
}


def _op_sites(ctx, f):
    """operator variable -> site index, from `a, b = map(FermionicOperator, "ab")` / `au = FermionicOperator("au")`"""
    out = {}
    for a in walk_own(f.node):
        if not isinstance(a, ast.Assign):
            continue
        v = a.value
        if isinstance(v, ast.Call) and src(v.func) == "FermionicOperator" and isinstance(a.targets[0], ast.Name) \
                and v.args and isinstance(v.args[0], ast.Constant):
            out[a.targets[0].id] = v.args[0].value
        elif isinstance(v, ast.Call) and src(v.func) == "map" and src(v.args[0]) == "FermionicOperator" \
                and isinstance(a.targets[0], ast.Tuple) and isinstance(v.args[1], ast.Constant):
            for t, lab in zip(a.targets[0].elts, v.args[1].value):
                out[src(t)] = lab
    labels = sorted({l[0] for l in out.values()})
    ctx.need(len(labels) == 2, f"{f.qualname}: expected operators of two sites, labels {sorted(out.values())}")
    return {name: labels.index(lab[0]) for name, lab in out.items()}


def _coef_sites(f):
    """coefficient variable -> site index from `xa, xb = x` / `xa = xb = x`"""
    out = {}
    for a in ast.walk(f.node):
        if isinstance(a, ast.Assign) and isinstance(a.targets[0], ast.Tuple) and len(a.targets[0].elts) == 2 \
                and isinstance(a.value, ast.Name):
            for i, t in enumerate(a.targets[0].elts):
                out[src(t)] = (i, a.value.id)
    return out



class Sym:
    """sign * base / prod(coordinations[k] for k in divs); base = (parameter, component) or an opaque source string"""

    def __init__(self, base, divs=(), sign=1, opaque=False):
        self.base, self.divs, self.sign, self.opaque = base, tuple(sorted(divs)), sign, opaque

    def key(self):
        return (self.base, self.divs, self.sign, self.opaque)

    def __repr__(self):
        b = f"{self.base[0]}[{self.base[1]}]" if isinstance(self.base, tuple) else str(self.base)
        return ("-" if self.sign < 0 else "") + b + "".join(f"/coordinations[{k}]" for k in self.divs)


def symbolic_env(f, upto):
    """forward symbolic evaluation of the straight-line assignments of f before statement `upto`:
    variable -> set of Sym (alternatives from try/except and if/else are united)"""
    env = {}
    for p in f.all_params():
        env[p] = {Sym((p, None)).key(): Sym((p, None))}

    def ev(e):
        if isinstance(e, ast.Name):
            return list(env.get(e.id, {src(e): Sym(src(e), opaque=True)}).values())
        if isinstance(e, ast.UnaryOp) and isinstance(e.op, ast.USub):
            return [Sym(v.base, v.divs, -v.sign, v.opaque) for v in ev(e.operand)]
        if isinstance(e, ast.Subscript) and isinstance(e.value, ast.Name) and isinstance(e.slice, ast.Constant):
            out = []
            for v in ev(e.value):
                if isinstance(v.base, tuple) and v.base[1] is None and not v.divs:
                    out.append(Sym((v.base[0], e.slice.value), (), v.sign))
                else:
                    out.append(Sym(src(e), opaque=True))
            return out
        if isinstance(e, ast.BinOp) and isinstance(e.op, ast.Div):
            out = []
            for n in ev(e.left):
                for d in ev(e.right):
                    if isinstance(d.base, tuple) and d.base[0] == "coordinations" and d.base[1] is not None and not d.divs \
                            and d.sign == 1 and not n.opaque:
                        out.append(Sym(n.base, n.divs + (d.base[1],), n.sign))
                    else:
                        out.append(Sym(src(e), opaque=True))
            return out
        return [Sym(src(e), opaque=True)]

    def assign(t, vals):
        if isinstance(t, ast.Name):
            env[t.id] = {v.key(): v for v in vals}

    def run(stmts, merge):
        for st in stmts:
            if st is upto:
                return True
            if isinstance(st, ast.Assign):
                for t in st.targets:
                    if isinstance(t, ast.Tuple) and isinstance(st.value, ast.Tuple) and len(t.elts) == len(st.value.elts):
                        vals = [ev(x) for x in st.value.elts]
                        for tt, vv in zip(t.elts, vals):
                            assign(tt, vv)
                    elif isinstance(t, ast.Tuple):
                        whole = ev(st.value)
                        for i, tt in enumerate(t.elts):
                            comp = []
                            for v in whole:
                                if isinstance(v.base, tuple) and v.base[1] is None and not v.divs:
                                    comp.append(Sym((v.base[0], i), (), v.sign))
                                else:
                                    comp.append(Sym(f"{src(st.value)}[{i}]", opaque=True))
                            assign(tt, comp)
                    else:
                        assign(t, ev(st.value))
            elif isinstance(st, ast.Try):
                before = {k: dict(v) for k, v in env.items()}
                if run(st.body, merge):
                    return True
                after_body = {k: dict(v) for k, v in env.items()}
                for h in st.handlers:
                    env.clear()
                    env.update({k: dict(v) for k, v in before.items()})
                    run(h.body, merge)
                    for k, v in env.items():
                        after_body.setdefault(k, {}).update(v)
                env.clear()
                env.update(after_body)
            elif isinstance(st, ast.If):
                before = {k: dict(v) for k, v in env.items()}
                run(st.body, merge)
                a = {k: dict(v) for k, v in env.items()}
                env.clear()
                env.update(before)
                run(st.orelse, merge)
                for k, v in a.items():
                    env.setdefault(k, {}).update(v)
        return False

    run(f.node.body, True)
    return ev


def check_terms(prog, ctx):
    rid = "R19.1"
    for fq in BUILDERS:
        f = prog.func(fq)
        ops = _op_sites(ctx, f)
        coefs = _coef_sites(f)
        terms = [a for a in walk_own(f.node) if isinstance(a, ast.Assign) and src(a.targets[0]) == "terms"]
        ctx.need(len(terms) == 1 and isinstance(terms[0].value, (ast.Tuple, ast.List)), f"{f.qualname}: literal `terms` not found")
        n_onsite = 0
        ev = symbolic_env(f, terms[0])
        for t in terms[0].value.elts:
            ctx.need(isinstance(t, ast.Tuple) and len(t.elts) == 2, f"{f.qualname}: term {src(t)} is not (coeff, ops)")
            coeff, opl = t.elts
            sites = set()
            for o in opl.elts:
                base = o.value if isinstance(o, ast.Attribute) and o.attr == "dag" else o
                ctx.need(isinstance(base, ast.Name) and base.id in ops, f"{f.qualname}: operator {src(o)} of unknown site")
                sites.add(ops[base.id])
            if len(sites) == 1:
                k = next(iter(sites))
                n_onsite += 1
                vals = ev(coeff)
                ok = True
                why = ""
                for v in vals:
                    if v.opaque or not isinstance(v.base, tuple):
                        ok, why = False, f"cannot be reduced to +-X / coordinations[k] (it is `{v}`)"
                    elif v.divs != (k,):
                        ok, why = False, (f"is divided by {['coordinations[%d]' % d for d in v.divs] or 'nothing'}, "
                                          f"not exactly once by the coordination of its own site coordinations[{k}]")
                    elif v.base[1] not in (k, None):
                        ok, why = False, f"uses component {v.base[1]} of `{v.base[0]}`, which is not site {k}'s coefficient"
                    if not ok:
                        break
                ctx.check(ok, rid, f, t, src(t)[:90],
                          f"on-site term on site {k}: coefficient `{src(coeff)}` = {sorted(map(repr, vals))} "
                          + ("is that site's coefficient divided once by that site's coordination" if ok else why))
            else:
                vals = ev(coeff)
                ok = all(not v.divs for v in vals) and "coordinations" not in src(coeff)
                ctx.check(ok, rid, f, t, src(t)[:90], f"two-site term: coefficient `{src(coeff)}` is not divided by a coordination")
        ctx.need(n_onsite >= 2, f"{f.qualname}: fewer than two on-site terms found")
        d = f.defaults().get("coordinations")
        ctx.check(d is not None and src(d) == "(1, 1)", rid, f, f.node, "default coordinations", "coordinations default to (1, 1) (a single bond)")
    # TFIM (dense builder)
    f = prog.func("symmray.hamiltonians:tfim_local_array")
    coefs = _coef_sites(f)
    h2 = [a for a in walk_own(f.node) if isinstance(a, ast.Assign) and src(a.targets[0]) == "h2"]
    ctx.need(len(h2) == 1, "tfim_local_array: h2 expression not found")
    found = 0
    for n in ast.walk(h2[0].value):
        if isinstance(n, ast.BinOp) and isinstance(n.op, ast.Mult) and isinstance(n.right, ast.BinOp) and isinstance(n.right.op, ast.BitAnd):
            factors = [src(n.right.left), src(n.right.right)]
            nonid = [i for i, x in enumerate(factors) if x != "I"]
            left = n.left
            if len(nonid) == 1:
                k = nonid[0]
                found += 1
                ok = isinstance(left, ast.BinOp) and isinstance(left.op, ast.Div) and src(left.right) == f"coordinations[{k}]" \
                    and isinstance(left.left, ast.Name) and coefs.get(left.left.id, (None,))[0] == k
                ctx.check(ok, rid, f, n, src(n), f"single-site field on site {k} is that site's field divided by coordinations[{k}]")
            else:
                ctx.check("coordinations" not in src(left), rid, f, n, src(n), "two-site coupling is not divided by a coordination")
    ctx.need(found == 2, "tfim_local_array: expected two single-site field terms")
    ctx.minimum(rid, 14, "spinless 5 terms, spinful 10 terms, tfim 3")


def check_builders(prog, ctx):
    rid = "R19.2"
    specs = {
        "symmray.hamiltonians:ham_tfim_from_edges": ("tfim_local_array", {"jx": "edge", "hz": "node"}),
        "symmray.hamiltonians:ham_fermi_hubbard_from_edges": ("fermi_hubbard_local_array", {"t": "edge", "U": "node", "mu": "node"}),
        "symmray.hamiltonians:ham_fermi_hubbard_spinless_from_edges": (
            "fermi_hubbard_spinless_local_array", {"t": "edge", "V": "edge", "mu": "node"}),
    }
    for fq, (local, roles) in specs.items():
        f = prog.func(fq)
        loops = [n for n in walk_own(f.node) if isinstance(n, ast.For) and src(n.iter) == "edges"]
        ctx.need(len(loops) == 1 and isinstance(loops[0].target, ast.Tuple), f"{f.qualname}: counting loop over edges not found")
        a, b = [src(e) for e in loops[0].target.elts]
        incs = sorted(src(s) for s in loops[0].body)
        want = sorted(f"coordinations[{x}] = coordinations.setdefault({x}, 0) + 1" for x in (a, b))
        ctx.check(incs == want, rid, f, loops[0], "; ".join(incs), "each end of each edge increments its site's coordination exactly once")
        init = [s for s in walk_own(f.node) if isinstance(s, ast.Assign) and src(s.targets[0]) == "coordinations"]
        ctx.check(len(init) == 1 and src(init[0].value) == "{}" and init[0].lineno < loops[0].lineno, rid, f, f.node, "init",
                  "coordination counts start from an empty dict")
        ret = [r for r in walk_own(f.node) if isinstance(r, ast.Return)]
        ctx.need(len(ret) == 1 and isinstance(ret[0].value, ast.DictComp), f"{f.qualname}: returned dict comprehension not found")
        dc = ret[0].value
        ctx.check(ret[0].lineno > loops[0].lineno, rid, f, ret[0], "order", "counting finishes before any local term is built")
        gen = dc.generators[0]
        ga, gb = [src(e) for e in gen.target.elts]
        ctx.check(src(gen.iter) == "edges" and src(dc.key) == f"({ga}, {gb})", rid, f, dc, src(dc.key), "one term per edge, keyed by the edge as given")
        call = dc.value
        ctx.check(isinstance(call, ast.Call) and src(call.func) == local, rid, f, dc, src(call.func), f"terms are built by {local}")
        kws = {k.arg: k.value for k in call.keywords}
        ctx.check("coordinations" in kws and src(kws["coordinations"]) == f"(coordinations[{ga}], coordinations[{gb}])", rid, f, call,
                  src(kws.get("coordinations")) if "coordinations" in kws else "missing",
                  "the local builder receives (coordination of the first end, coordination of the second end)")
        # factories
        facts = {}
        for s in walk_own(f.node):
            if isinstance(s, ast.Assign) and isinstance(s.value, ast.Call) and src(s.value.func) in ("make_edge_factory", "make_node_factory"):
                facts[src(s.targets[0])] = (src(s.value.func), src(s.value.args[0]))
        for pname, role in roles.items():
            v = kws.get(pname)
            ok = v is not None
            if ok and role == "edge":
                ok = isinstance(v, ast.Call) and facts.get(src(v.func)) == ("make_edge_factory", pname) and [src(x) for x in v.args] == [ga, gb]
            elif ok:
                ok = isinstance(v, ast.Tuple) and len(v.elts) == 2 and all(
                    isinstance(e, ast.Call) and facts.get(src(e.func)) == ("make_node_factory", pname) for e in v.elts) \
                    and [src(e.args[0]) for e in v.elts] == [ga, gb]
            ctx.check(ok, rid, f, call, f"{pname}={src(v) if v is not None else None}",
                      f"`{pname}` is evaluated by its {role} factory for ({ga}, {gb}) in edge order")
    ctx.minimum(rid, 20, "three builders")


def check_factories(prog, ctx):
    rid = "R19.3"
    f = prog.func("symmray.hamiltonians:make_edge_factory")
    inner = [n for n in ast.walk(f.node) if isinstance(n, ast.FunctionDef) and n is not f.node]
    dict_branch = [n for n in walk_own(f.node) if isinstance(n, ast.If) and src(n.test) == "isinstance(t, dict)"]
    ctx.need(len(dict_branch) == 1, "make_edge_factory: dict branch not found")
    fn = [s for s in dict_branch[0].body if isinstance(s, ast.FunctionDef)]
    ok = len(fn) == 1
    if ok:
        pa, pb = [a.arg for a in fn[0].args.args]
        tr = [s for s in fn[0].body if isinstance(s, ast.Try)]
        ok = len(tr) == 1 and src(tr[0].body[0]) == f"return t[{pa}, {pb}]" and len(tr[0].handlers) == 1 \
            and src(tr[0].handlers[0].type) == "KeyError" and src(tr[0].handlers[0].body[0]) == f"return t[{pb}, {pa}]"
    ctx.check(ok, rid, f, f.node, "dict lookup", "a dict of edge coefficients is looked up as (a, b), then as (b, a)")
    br = dict_branch[0].orelse
    ok = len(br) == 1 and isinstance(br[0], ast.If) and src(br[0].test) == "callable(t)" and src(br[0].body[0]) == "edge_factory = t"
    ctx.check(ok, rid, f, f.node, "callable", "a callable is used as is")
    ok = ok and any(isinstance(s, ast.FunctionDef) and src(s.body[0]) == "return t" for s in br[0].orelse)
    ctx.check(ok, rid, f, f.node, "scalar", "a scalar is returned for every edge")
    g = prog.func("symmray.hamiltonians:make_node_factory")
    db = [n for n in walk_own(g.node) if isinstance(n, ast.If) and src(n.test) == "isinstance(U, dict)"]
    ok = len(db) == 1 and any(isinstance(s, ast.FunctionDef) and src(s.body[0]) == f"return U[{s.args.args[0].arg}]" for s in db[0].body)
    ctx.check(ok, rid, g, g.node, "node dict", "a dict of site coefficients is looked up by site")
    ctx.minimum(rid, 4, "edge: dict/callable/scalar; node: dict")


def check_siteinfo(prog, ctx):
    rid = "R19.4"
    f = prog.func("symmray.networks:parse_edges_to_site_info")
    loops = [n for n in walk_own(f.node) if isinstance(n, ast.For) and src(n.iter) == "sorted(edges)"]
    ctx.check(len(loops) == 1, rid, f, f.node, "sorted edges", "bonds are created in sorted edge order (canonical)")
    ctx.need(len(loops) == 1, "parse_edges_to_site_info: loop over sorted(edges) not found")
    lp = loops[0]
    a, b = [src(e) for e in lp.target.elts]
    sw = [s for s in lp.body if isinstance(s, ast.If) and src(s.test) == f"{a} > {b}"]
    ok = len(sw) == 1 and isinstance(sw[0].body[0], ast.Assign) and isinstance(sw[0].body[0].targets[0], ast.Tuple) \
        and isinstance(sw[0].body[0].value, ast.Tuple) and [src(e) for e in sw[0].body[0].targets[0].elts] == [a, b] \
        and [src(e) for e in sw[0].body[0].value.elts] == [b, a]
    ctx.check(ok, rid, f, lp, "swap", "each edge is oriented smaller site first")
    body = [src(s) for s in lp.body]
    ind = [s for s in lp.body if isinstance(s, ast.Assign) and src(s.targets[0]) == "ind"]
    ctx.check(len(ind) == 1 and src(ind[0].value) == f"bond_ind_id.format({a}, {b})", rid, f, lp, "ind", "one index name per bond")
    ia = [s for s in lp.body if isinstance(s, ast.Assign) and src(s.value) == f"sites.setdefault({a}, {{}})"]
    ib = [s for s in lp.body if isinstance(s, ast.Assign) and src(s.value) == f"sites.setdefault({b}, {{}})"]
    ctx.need(len(ia) == 1 and len(ib) == 1, "parse_edges_to_site_info: per-site info dicts not found")
    va, vb = src(ia[0].targets[0]), src(ib[0].targets[0])
    for key, xa, xb, what in (("inds", "ind", "ind", "the same index name goes to both ends"),
                              ("duals", "0", "1", "the first end is non-dual (0), the second dual (1)"),
                              ("shape", "bond_dim", "bond_dim", "both ends get the bond dimension")):
        ok = f"{va}.setdefault('{key}', []).append({xa})" in body and f"{vb}.setdefault('{key}', []).append({xb})" in body
        ctx.check(ok, rid, f, lp, key, what)
    # coordination before the physical index is appended
    l2 = [n for n in walk_own(f.node) if isinstance(n, ast.For) and src(n.iter) == "sites"]
    ctx.need(len(l2) == 1, "parse_edges_to_site_info: loop over sites not found")
    s = src(l2[0].target)
    co = [x for x in l2[0].body if isinstance(x, ast.Assign) and src(x.targets[0]) == f"sites[{s}]['coordination']"]
    app = [x for x in ast.walk(l2[0]) if isinstance(x, ast.Call) and src(x.func) == f"sites[{s}]['inds'].append"]
    ok = len(co) == 1 and src(co[0].value) == f"len(sites[{s}]['inds'])" and all(co[0].lineno < x.lineno for x in app) and \
        l2[0].lineno > lp.lineno
    ctx.check(ok, rid, f, l2[0], "coordination", "coordination = number of bond indices, taken after all bonds and before the physical index")
    dual = [x for x in ast.walk(l2[0]) if isinstance(x, ast.Call) and src(x.func) == f"sites[{s}]['duals'].append"]
    ctx.check(len(dual) == 1 and src(dual[0].args[0]) == "0", rid, f, l2[0], "physical dual", "the physical index is non-dual")
    ctx.minimum(rid, 8, "sorted, swap, index, three lists, coordination, physical")


def run(prog, ctx):
    ctx.rule("R19.1", "in each local builder an on-site term of site k has coefficient +-X_k / coordinations[k]; two-site terms are not divided")
    ctx.rule("R19.2", "from_edges builders count both ends of every edge once before use and pass coordinations and per-site values in edge order")
    ctx.rule("R19.3", "edge factory: dict by (a,b) then (b,a), callable as is, scalar constant; node factory: dict by site")
    ctx.rule("R19.4", "site info: sorted, oriented edges; shared index name; duals 0/1; coordination before the physical index")
    check_terms(prog, ctx)
    check_builders(prog, ctx)
    check_factories(prog, ctx)
    check_siteinfo(prog, ctx)
